//! Per-run simulator state kept in thread-locals: the step clock (the only clock a run ever
//! sees), the work budget, the decision tape, the seam-interaction fingerprint and the
//! probe / fault counters. A run executes on exactly one thread, so thread-locals are the run's
//! private state and nothing is shared between concurrently executing runs.

use crate::rng::{Fp, Tape};
use std::cell::{Cell, RefCell};

/// Panic payload raised by `tick()` when a run exceeds its work budget.
#[derive(Debug, Clone, Copy)]
pub struct BudgetExceeded {
    pub ticks: u64,
}

/// Panic payload raised by simulated inputs when the scanner breaks the `Input` contract in a way
/// the shipped ring buffer would also panic on.
#[derive(Debug, Clone)]
pub struct ContractViolation(pub String);

pub const N_PROBES: usize = 44;

#[derive(Clone, Copy, Debug, PartialEq, Eq)]
#[repr(usize)]
pub enum Probe {
    RawReadPath = 0,
    BreakPushedBack,
    BreakLeftUnconsumed,
    LookaheadFullCap,
    LookaheadPadded,
    SourceEofEarly,
    PeekAtError,
    PeekRepeated,
    CallsAfterEnd,
    LoadSingleMultiDoc,
    AliasPrevDoc,
    ErrorRuns,
    CompleteRuns,
    DeepNest8,
    // C18
    ReadShort,
    ReadEintr,
    ReadHardError,
    ReadEarlyEof,
    ByteTruncate,
    ByteFlip,
    ByteOverwrite,
    ByteInsert,
    ByteDelete,
    BomDrop,
    BomDup,
    EncSplice,
    TrapCalled,
    TrapContinueNothing,
    TrapContinueFffd,
    TrapContinueBig,
    TrapBreakEmpty,
    TrapBreakMsg,
    DecodeMultiIter,
    DecodeErrDecode,
    DecodeErrScan,
    DecodeErrIo,
    DecodeOk,
    SlowIndentPath,
    LongPlainChunk,
    EscapeSeen,
    NestedDecodeInRead,
    NestedDecodeInTrap,
    NestedParse,
    TrapShrinksOutput,
}

pub const PROBE_NAMES: [&str; N_PROBES] = [
    "raw_read_path_taken",
    "break_pushed_back_into_buffer",
    "break_left_unconsumed",
    "lookahead_at_full_capacity",
    "lookahead_padded_with_nul",
    "source_ended_early(eof_at)",
    "peek_at_error_position",
    "peek_repeated",
    "calls_after_stream_end",
    "load_single_on_multi_document_stream",
    "alias_to_anchor_of_previous_document",
    "runs_ending_in_error",
    "runs_ending_in_stream_end",
    "nesting_depth_ge_8",
    "read_short",
    "read_eintr",
    "read_hard_error",
    "read_early_eof",
    "bytes_truncated",
    "bit_flipped",
    "byte_overwritten",
    "byte_inserted",
    "byte_deleted",
    "bom_dropped",
    "bom_duplicated",
    "encoding_spliced",
    "trap_callback_called",
    "trap_continue_push_nothing",
    "trap_continue_push_fffd",
    "trap_continue_push_64_bytes",
    "trap_break_empty_message",
    "trap_break_with_message",
    "decode_loop_more_than_one_iteration",
    "decode_result_err_decode",
    "decode_result_err_scan",
    "decode_result_err_io",
    "decode_result_ok",
    "block_scalar_indent_slow_path(indent>=cap-2)",
    "plain_scalar_longer_than_capacity",
    "escape_sequence_scanned",
    "nested_decode_from_reader",
    "nested_decode_from_trap_callback",
    "nested_parse_from_input_seam",
    "trap_continue_after_shrinking_output",
];

/// Which probes count as *injected faults* (reported under fault_counts) as opposed to
/// rare-condition probes.
pub fn is_fault(p: usize) -> bool {
    const F: [Probe; 21] = [
        Probe::BreakPushedBack,
        Probe::BreakLeftUnconsumed,
        Probe::SourceEofEarly,
        Probe::ReadShort,
        Probe::ReadEintr,
        Probe::ReadHardError,
        Probe::ReadEarlyEof,
        Probe::ByteTruncate,
        Probe::ByteFlip,
        Probe::ByteOverwrite,
        Probe::ByteInsert,
        Probe::ByteDelete,
        Probe::BomDrop,
        Probe::BomDup,
        Probe::EncSplice,
        Probe::TrapBreakEmpty,
        Probe::TrapBreakMsg,
        Probe::NestedDecodeInRead,
        Probe::NestedDecodeInTrap,
        Probe::NestedParse,
        Probe::TrapShrinksOutput,
    ];
    F.iter().any(|f| *f as usize == p)
}

thread_local! {
    static TICKS: Cell<u64> = const { Cell::new(0) };
    static BUDGET: Cell<u64> = const { Cell::new(u64::MAX) };
    static FP: Cell<u64> = const { Cell::new(0) };
    static TAPE: RefCell<Option<Tape>> = const { RefCell::new(None) };
    static PROBES: RefCell<[u64; N_PROBES]> = const { RefCell::new([0; N_PROBES]) };
    static RUN_FAULTS: Cell<u64> = const { Cell::new(0) };
}

thread_local! {
    /// The seam call at which the environment uses the library itself (u64::MAX: never).
    static NEST_AT: Cell<u64> = const { Cell::new(u64::MAX) };
    static NEST_WRONG: RefCell<Option<String>> = const { RefCell::new(None) };
}
/// What the environment does when it uses the library itself: returns a description if the
/// nested use gave a wrong result. Installed by `trace`.
pub static NESTED_USE: std::sync::OnceLock<fn() -> Option<String>> = std::sync::OnceLock::new();

/// Draw (from the tape) whether and at which seam call of the coming execution the environment
/// on the far side of the Input seam parses and loads a small document of its own. The parser
/// has no state outside its own value, so this must not disturb either of them.
pub fn arm_nested() {
    let at = match choose(8) {
        6 => 1 + u64::from(choose(64)),
        7 => 1 + u64::from(choose(4096)),
        _ => u64::MAX,
    };
    NEST_AT.with(|c| c.set(at));
}
pub fn disarm_nested() {
    NEST_AT.with(|c| c.set(u64::MAX));
}
pub fn take_nested_wrong() -> Option<String> {
    NEST_WRONG.with(|w| w.borrow_mut().take())
}
#[cold]
fn nested_use() {
    NEST_AT.with(|c| c.set(u64::MAX));
    probe(Probe::NestedParse);
    if let Some(f) = NESTED_USE.get() {
        if let Some(msg) = f() {
            NEST_WRONG.with(|w| *w.borrow_mut() = Some(msg));
        }
    }
}

#[inline]
pub fn tick() {
    let t = TICKS.with(|c| {
        let v = c.get() + 1;
        c.set(v);
        v
    });
    if t == NEST_AT.with(Cell::get) {
        nested_use();
    }
    if t > BUDGET.with(Cell::get) {
        // Disarm so that unwinding code that touches a seam cannot panic again.
        BUDGET.with(|b| b.set(u64::MAX));
        std::panic::panic_any(BudgetExceeded { ticks: t });
    }
}

/// Tick and fold `(op, arg)` into the run fingerprint.
#[inline]
pub fn tick_op(op: u64, arg: u64) {
    FP.with(|f| {
        let mut fp = Fp(f.get());
        fp.mix(op.wrapping_mul(1315423911) ^ arg);
        f.set(fp.0);
    });
    tick();
}

pub fn fp_mix(x: u64) {
    FP.with(|f| {
        let mut fp = Fp(f.get());
        fp.mix(x);
        f.set(fp.0);
    });
}

pub fn fp_reset() {
    FP.with(|f| f.set(Fp::default().0));
}

pub fn ticks() -> u64 {
    TICKS.with(Cell::get)
}
pub fn fingerprint() -> u64 {
    FP.with(Cell::get)
}

/// Start a (sub-)execution: reset clock and fingerprint, arm the budget, install the tape.
pub fn begin(budget: u64, tape: Tape) {
    saphyr_parser::verif_hooks::set_work_budget(work_budget_for(budget));
    TICKS.with(|c| c.set(0));
    BUDGET.with(|c| c.set(budget));
    FP.with(|c| c.set(Fp::default().0));
    TAPE.with(|t| *t.borrow_mut() = Some(tape));
    RUN_FAULTS.with(|c| c.set(0));
    NEST_AT.with(|c| c.set(u64::MAX));
    NEST_WRONG.with(|w| *w.borrow_mut() = None);
}

/// Reset only the clock (used between the candidates of one C10 run).
pub fn rearm(budget: u64) {
    saphyr_parser::verif_hooks::set_work_budget(work_budget_for(budget));
    TICKS.with(|c| c.set(0));
    BUDGET.with(|c| c.set(budget));
}

pub fn disarm() {
    BUDGET.with(|c| c.set(u64::MAX));
    let w = saphyr_parser::verif_hooks::work_ticks();
    saphyr_parser::verif_hooks::set_work_budget(u64::MAX);
    // keep the count readable after disarming
    saphyr_parser::verif_hooks::work_tick_n(w);
}

/// The budget for the library-internal work counter (loop iterations inside scanner, parser and
/// string input, reported through the guarded hooks) that goes with a seam-call budget.
/// Seam budget is 200*(n+16); internal work gets 1000*(n+16). Typical inputs need < 6 per
/// character, but a flow nest whose every level is a key (`[[[[:]:]:]:]`) makes the scanner
/// insert a KEY token in front of each level's tokens, 2*depth queue elements moved per
/// character; the depth is capped at 255 by the scanner, so that is 510 per character at most:
/// bounded, linear, and twice below this budget.
fn work_budget_for(budget: u64) -> u64 {
    if budget == u64::MAX || std::env::var_os("SIM_NO_WORK_BUDGET").is_some() {
        u64::MAX
    } else {
        budget.saturating_mul(5)
    }
}

pub fn work() -> u64 {
    saphyr_parser::verif_hooks::work_ticks()
}

pub fn end() -> Tape {
    disarm();
    TAPE.with(|t| t.borrow_mut().take()).unwrap_or_else(|| Tape::replay(Vec::new()))
}

/// Draw a decision from the run's tape (0 if no tape is installed).
#[inline]
pub fn choose(n: u32) -> u32 {
    TAPE.with(|t| match t.borrow_mut().as_mut() {
        Some(t) => t.choose(n),
        None => 0,
    })
}

#[inline]
pub fn probe(p: Probe) {
    PROBES.with(|a| a.borrow_mut()[p as usize] += 1);
    if is_fault(p as usize) {
        RUN_FAULTS.with(|c| c.set(c.get() + 1));
    }
}

pub fn run_faults() -> u64 {
    RUN_FAULTS.with(Cell::get)
}

pub fn take_probes() -> [u64; N_PROBES] {
    PROBES.with(|a| std::mem::replace(&mut *a.borrow_mut(), [0; N_PROBES]))
}
