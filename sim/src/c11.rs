//! C11 — nesting depth cannot crash the process.
//!
//! The injected fault is resource exhaustion: a finite (8 MiB) stack. A stack overflow is an
//! abort, observable only from another process, so every scenario = (shape, depth, API) runs in
//! a child process on a thread with exactly the 8 MiB stack the property names, and the parent
//! observes its exit status. There is no schedule here: this is fault *enumeration* over a grid.

use crate::batch::Config;
use crate::case::Case;
use crate::json::J;
use crate::rng::{mix, SplitMix64};
use saphyr::{LoadableYamlNode, MarkedYaml, MarkedYamlOwned, Scalar, Yaml, YamlEmitter, YamlOwned};
use saphyr_parser::{Event, Parser, Span, SpannedEventReceiver};
use std::collections::BTreeMap;
use std::io::Read;
use std::os::unix::process::ExitStatusExt;
use std::process::{Command, Stdio};
use std::sync::atomic::{AtomicUsize, Ordering};
use std::sync::{Arc, Mutex};
use std::time::{Duration, Instant};

pub const STACK: usize = 8 << 20;

pub const TEXT_SHAPES: [&str; 12] = [
    "seq", "expkey", "alt", "mapnl", "seq-then-flow", "seq-dedent", "seq-badleaf", "expkey-badleaf", "flowseq", "flowseq-closed", "flowmap", "flowmix",
];
/// The pull interface keeps its continuation on the heap, so its stack use must not depend on
/// the nesting depth at all: these API variants run the same scenario on a *small* stack
/// (suffix `@<n>k`), which turns "stack consumption grows with depth" into an observable crash
/// long before 8 MiB would overflow, whatever the frame size of the build profile.
pub const SMALL_STACK_APIS: [&str; 3] = ["iter@256k", "peeknext@256k", "pull+loader@256k"];
pub const TREE_SHAPES: [&str; 7] = ["tree-seq", "tree-mapval", "tree-mapkey", "tree-seq-mlstr", "tree-mapval-mlstr", "tree-seq-2leaf", "tree-seq-mapleaf"];
pub const TEXT_APIS: [&str; 11] = [
    "iter", "peeknext", "load", "lfs:Yaml", "lfs:YamlOwned", "lfs:MarkedYaml", "lfs:MarkedYamlOwned",
    "decode", "decode:utf16le", "lazy:Yaml", "lazy:MarkedYamlOwned",
];
pub const TREE_APIS: [&str; 7] = ["drop", "clone", "eq", "hash", "emit", "emit:multiline", "emit:noncompact"];
/// Wide (long, not deep) documents and shallow-but-closed flow nests: nothing may recurse per
/// *element*, so the whole life cycle must succeed on the 8 MiB stack.
pub const WIDE_SHAPES: [&str; 5] = ["wide-seq", "wide-map", "wide-flowseq", "wide-flowmap", "flow-closed-200"];
pub const WIDE_APIS: [&str; 6] = ["iter@256k", "load", "roundtrip:Yaml", "roundtrip:YamlOwned", "roundtrip:MarkedYaml", "roundtrip:MarkedYamlOwned"];

/// Constructs in which one character is repeated (the flat-input stack scenarios of C01).
pub const RUN_CONTEXTS: [&str; 18] = [
    "- {R}\n", "{R}: v\n", "k: \"{R}\"\n", "k: '{R}'\n", "!!int {R}\n", "!!float {R}\n", "!{R} x\n", "&{R} x\n", "# {R}\n", "k: |\n {R}\n", "[{R}]\n", "k: a{R}\n",
    "- 1{R}\n", "%TAG !e! {R}\n--- !e!x y\n",
    // the run as INDENTATION of a nested block collection, followed by a shallower line
    "a:\n{R}b: c\nd: e\n", "-\n{R}- x\n- y\n", "a:\n{R}- x\nb: 1\n", "? a\n{R}b\n: c\n",
];
pub const RUN_CHARS: &str = "+-.0_~exoXOaAnNfFtT:,#&*!|>%@`\\/<=? \t\n";
pub const RUN_APIS: [&str; 6] = ["iter@256k", "lfs:Yaml", "lfs:YamlOwned", "lfs:MarkedYamlOwned", "lazy:Yaml", "decode"];

pub fn shape_class(shape: &str) -> &'static str {
    if shape.starts_with("rep:") {
        return "rep";
    }
    if shape.starts_with("run:") {
        return "flat";
    }
    if shape.starts_with("randnest:") || shape.starts_with("randnest-seq:") {
        return "block";
    }
    if shape.starts_with("wide-") || shape == "flow-closed-200" || shape.starts_with("family:") {
        return "wide";
    }
    if shape.starts_with("bytes:") {
        return "bytes";
    }
    match shape {
        "seq" | "expkey" | "alt" | "mapnl" | "seq-then-flow" | "seq-dedent" | "seq-badleaf" | "expkey-badleaf" => "block",
        "flowseq" | "flowseq-closed" | "flowmap" | "flowmix" => "flow",
        _ => "tree",
    }
}

/// A seeded deep block nest: a one-line nest of `- ` / `? ` openers drawn per level, followed
/// by a few continuation lines that re-enter the nest as siblings at drawn levels (each closes
/// some levels while the others stay open), optionally ending inside a flow collection.
fn rand_nest(seed: u64, d: usize, seq_only: bool) -> String {
    let mut r = SplitMix64::new(seed ^ 0xC11C_11C1);
    let mut s = String::with_capacity(4 * d + 64);
    let mut kinds = Vec::with_capacity(d);
    let run = 1 + r.usize(8);
    let mut cur = r.chance(1, 2);
    for k in 0..d {
        if k % run == 0 {
            cur = seq_only || r.chance(1, 2);
        }
        kinds.push(cur);
        s.push_str(if cur { "- " } else { "? " });
    }
    s.push_str(*r.pick(&["a", "&x a", "[a, b]", "{a: b}", "!!str a", "|\n", "\"unterminated", "@bad", "'open", "[a, b", "!<x"]));
    s.push('\n');
    let lines = 1 + r.usize(4);
    let mut level = d;
    for _ in 0..lines {
        if level < 2 {
            break;
        }
        // re-enter as a sibling at a drawn level: deep (near the bottom), middle, or shallow
        level = match r.below(3) {
            0 => level - 1 - r.usize(level.min(3)),
            1 => level / 2,
            _ => r.usize(level.min(4)),
        };
        for _ in 0..2 * level {
            s.push(' ');
        }
        s.push_str(if kinds.get(level).copied().unwrap_or(true) { "- b" } else { "? b" });
        s.push('\n');
    }
    s
}

pub fn text_for(shape: &str, d: usize) -> String {
    let mut s = String::new();
    if let Some(seed) = shape.strip_prefix("randnest:") {
        return rand_nest(seed.parse().unwrap_or(0), d, false);
    }
    if let Some(seed) = shape.strip_prefix("randnest-seq:") {
        return rand_nest(seed.parse().unwrap_or(0), d, true);
    }
    if let Some(spec) = shape.strip_prefix("rep:") {
        // one token, or an ordered pair of tokens, of the YAML token alphabet repeated d times
        let mut unit = String::new();
        for k in spec.split(':') {
            unit.push_str(crate::gen::TOKENS[k.parse::<usize>().unwrap_or(0) % crate::gen::TOKENS.len()]);
        }
        let mut s = String::with_capacity(unit.len() * d + 2);
        for _ in 0..d {
            s.push_str(&unit);
        }
        s.push_str("x\n");
        return s;
    }
    if let Some(spec) = shape.strip_prefix("run:") {
        // a FLAT input: one character repeated d times inside one construct
        let mut it = spec.split(':');
        let ctx = it.next().and_then(|k| k.parse::<usize>().ok()).unwrap_or(0) % RUN_CONTEXTS.len();
        let ch = it.next().and_then(|k| k.parse::<u32>().ok()).and_then(char::from_u32).unwrap_or('+');
        let run: String = std::iter::repeat(ch).take(d).collect();
        return RUN_CONTEXTS[ctx].replace("{R}", &run);
    }
    if let Some(fam) = shape.strip_prefix("family:") {
        // every input family of the instruction clock, `d` = size in bytes
        return crate::scale::render(fam, d);
    }
    match shape {
        "wide-seq" => {
            for k in 0..d {
                s.push_str(if k % 7 == 0 { "- &a x\n" } else if k % 7 == 3 { "- *a\n" } else { "- item\n" });
            }
        }
        "wide-map" => {
            for k in 0..d {
                s.push_str(&format!("k{k}: v\n"));
            }
        }
        "wide-flowseq" => {
            s.push('[');
            for _ in 0..d {
                s.push_str("a, ");
            }
            s.push_str("z]\n");
        }
        "wide-flowmap" => {
            s.push('{');
            for k in 0..d {
                s.push_str(&format!("k{k}: v, "));
            }
            s.push_str("z: z}\n");
        }
        "flow-closed-200" => {
            // many documents, each a legal 200-level closed flow nest
            for _ in 0..(d / 400).max(1) {
                s.push_str("--- ");
                for _ in 0..200 {
                    s.push('[');
                }
                for _ in 0..200 {
                    s.push(']');
                }
                s.push('\n');
            }
        }
        "seq" => {
            for _ in 0..d {
                s.push_str("- ");
            }
            s.push('a');
        }
        "expkey" => {
            for _ in 0..d {
                s.push_str("? ");
            }
            s.push('a');
        }
        "alt" => {
            for k in 0..d {
                s.push_str(if k % 2 == 0 { "- " } else { "? " });
            }
            s.push('a');
        }
        "mapnl" => {
            let d = effective_depth(shape, d);
            for k in 0..d {
                for _ in 0..k {
                    s.push(' ');
                }
                s.push_str("k:\n");
            }
            for _ in 0..d {
                s.push(' ');
            }
            s.push_str("v\n");
        }
        "seq-badleaf" | "expkey-badleaf" => {
            // a deep nest whose LEAF is a scanner-level error: the error value itself must not
            // depend on the depth at which it was raised (returning, printing and dropping it)
            for _ in 0..d {
                s.push_str(if shape == "seq-badleaf" { "- " } else { "? " });
            }
            s.push_str(["\"unterminated", "@reserved", "'open", "\"bad \\q escape\"", "!<unclosed", "[a, b", "&", "|99"][d % 8]);
        }
        "seq-dedent" => {
            // a deep one-line nest, then a sibling entry deep inside it: one level closes while
            // about d levels stay open across the dedent
            for _ in 0..d {
                s.push_str("- ");
            }
            s.push_str("a\n");
            for _ in 0..2 * d.saturating_sub(2) {
                s.push(' ');
            }
            s.push_str("- b\n");
        }
        "seq-then-flow" => {
            for _ in 0..d {
                s.push_str("- ");
            }
            for _ in 0..200 {
                s.push('[');
            }
            for _ in 0..200 {
                s.push(']');
            }
        }
        "flowseq" => {
            for _ in 0..d {
                s.push('[');
            }
        }
        "flowseq-closed" => {
            for _ in 0..d {
                s.push('[');
            }
            for _ in 0..d {
                s.push(']');
            }
        }
        "flowmap" => {
            for _ in 0..d {
                s.push_str("{a: ");
            }
        }
        _ => {
            for _ in 0..d {
                s.push_str("[{a: ");
            }
        }
    }
    s
}

/// Depth actually built for a shape (some shapes cost quadratic time or space to build).
pub fn effective_depth(shape: &str, d: usize) -> usize {
    match shape {
        // text size is quadratic in depth
        "mapnl" => d.min(3000),
        // inserting a deep node as a *key* hashes it: building is quadratic (and itself recursive)
        "tree-mapkey" => d.min(3000),
        "tree-mapval-mlstr" => d.min(20_000),
        _ => d,
    }
}

/// The emitter indents nested block mappings, so its output (and running time) is quadratic in
/// the depth of a mapping chain; cap that one combination so that a scenario stays under a few
/// seconds. Sequence chains are emitted compactly (`- - - x`) and are not capped.
pub fn effective_depth_api(shape: &str, api: &str, d: usize) -> usize {
    if api.starts_with("emit") && (shape == "tree-mapval" || shape == "tree-mapval-mlstr" || api == "emit:noncompact") {
        d.min(20_000)
    } else {
        effective_depth(shape, d)
    }
}

struct NullWriter(u64);
impl std::fmt::Write for NullWriter {
    fn write_str(&mut self, s: &str) -> std::fmt::Result {
        self.0 += s.len() as u64;
        Ok(())
    }
}

/// String leaves that take the emitter's special paths (quoting, literal blocks, indentation
/// indicators): put at the bottom of short and long chains.
pub const LEAVES: [&str; 20] = [
    " a\nb", "a\n b", "\na", "a\n", "a\n\n", "\t a\nb", "a: b\nc", "- a\nb", "#a\nb", "a\r\nb", " ", "", "a\nb ", "\n", "  a\n  b\n", "a\u{85}b", "a\u{2028}b\nc", "'\"\n", "|\n", "a\n\u{feff}b",
];

fn tree_for(shape: &str, d: usize) -> Yaml<'static> {
    if let Some(spec) = shape.strip_prefix("tree-leaf:") {
        // tree-leaf:<seq|map>:<leaf index>
        let mut it = spec.split(':');
        let seq = it.next() == Some("seq");
        let leaf = LEAVES[it.next().and_then(|k| k.parse::<usize>().ok()).unwrap_or(0) % LEAVES.len()];
        let mut n = Yaml::Value(Scalar::String(leaf.into()));
        for _ in 0..d {
            n = if seq {
                Yaml::Sequence(vec![n])
            } else {
                let mut m = saphyr::Mapping::new();
                m.insert(Yaml::Value(Scalar::String("k".into())), n);
                Yaml::Mapping(m)
            };
        }
        return n;
    }
    let d = effective_depth(shape, d);
    let mut n = if shape == "tree-seq-2leaf" {
        // the innermost collection has a SECOND entry: the emitter writes one indentation of the
        // full depth (the output stays linear in the depth)
        Yaml::Sequence(vec![Yaml::Value(Scalar::Integer(1)), Yaml::Value(Scalar::Integer(2))])
    } else if shape == "tree-seq-mapleaf" {
        let mut m = saphyr::Mapping::new();
        m.insert(Yaml::Value(Scalar::String("a".into())), Yaml::Value(Scalar::Integer(1)));
        m.insert(Yaml::Value(Scalar::String("b".into())), Yaml::Sequence(vec![Yaml::Value(Scalar::Integer(2))]));
        Yaml::Mapping(m)
    } else if shape.ends_with("-mlstr") {
        // a multi-line string leaf (the emitter's literal-block path under multiline_strings)
        Yaml::Value(Scalar::String("first line\nsecond line\n  indented\n".into()))
    } else {
        Yaml::Value(Scalar::Integer(1))
    };
    for _ in 0..d {
        n = match shape {
            "tree-seq" | "tree-seq-mlstr" | "tree-seq-2leaf" | "tree-seq-mapleaf" => Yaml::Sequence(vec![n]),
            "tree-mapval" | "tree-mapval-mlstr" => {
                let mut m = saphyr::Mapping::new();
                m.insert(Yaml::Value(Scalar::Integer(0)), n);
                Yaml::Mapping(m)
            }
            _ => {
                let mut m = saphyr::Mapping::new();
                m.insert(n, Yaml::Value(Scalar::Integer(0)));
                Yaml::Mapping(m)
            }
        };
    }
    n
}

struct Sink(u64);
impl<'a> SpannedEventReceiver<'a> for Sink {
    fn on_event(&mut self, _ev: Event<'a>, _span: Span) {
        self.0 += 1;
    }
}

/// Byte patterns for the decoder (C18's stack sub-check): `n` repetitions of a malformed or
/// valid unit between `a: ` and `b`.
pub const BYTE_PATTERNS: [&str; 6] = ["ff-run", "truncated-run", "utf16-lone-surrogates", "utf16-odd", "valid-cjk-utf8", "valid-cjk-utf16"];
pub fn bytes_for(pattern: &str, n: usize) -> Vec<u8> {
    let mut v = Vec::with_capacity(4 * n + 16);
    match pattern {
        "ff-run" => {
            v.extend_from_slice(b"a: ");
            v.extend(std::iter::repeat(0xFFu8).take(n));
            v.extend_from_slice(b"b\n");
        }
        "truncated-run" => {
            v.extend_from_slice(b"a: ");
            for _ in 0..n {
                v.extend_from_slice(&[0xE4, 0xB8, b'x']);
            }
            v.extend_from_slice(b"\n");
        }
        "utf16-lone-surrogates" => {
            v.extend_from_slice(&[0xFF, 0xFE, b'a', 0, b':', 0, b' ', 0]);
            for _ in 0..n {
                v.extend_from_slice(&[0x3D, 0xD8, b'x', 0]);
            }
            v.extend_from_slice(&[b'\n', 0]);
        }
        "utf16-odd" => {
            v.extend_from_slice(&[b'a', 0, b':', 0, b' ', 0]);
            for _ in 0..n {
                v.extend_from_slice(&[b'x', 0]);
            }
            v.push(0x41);
        }
        "valid-cjk-utf8" => {
            v.extend_from_slice(b"a: ");
            for _ in 0..n {
                v.extend_from_slice(&[0xE4, 0xB8, 0xAD]);
            }
            v.push(b'\n');
        }
        _ => {
            v.extend_from_slice(&[0xFE, 0xFF, 0, b'a', 0, b':', 0, b' ']);
            for _ in 0..n {
                v.extend_from_slice(&[0x4E, 0x2D]);
            }
            v.extend_from_slice(&[0, b'\n']);
        }
    }
    v
}

fn count_trap(_: u8, _: u8, _: &[u8], output: &mut String) -> std::ops::ControlFlow<std::borrow::Cow<'static, str>> {
    output.push('\u{FFFD}');
    std::ops::ControlFlow::Continue(())
}

fn decoder_scenario(pattern: &str, n: usize, api: &str) -> String {
    use saphyr::{YAMLDecodingTrap, YamlDecoder};
    let bytes = bytes_for(pattern, n);
    let trap = match api {
        "decode:ignore" => YAMLDecodingTrap::Ignore,
        "decode:replace" => YAMLDecodingTrap::Replace,
        "decode:call" => YAMLDecodingTrap::Call(count_trap),
        _ => YAMLDecodingTrap::Strict,
    };
    let mut dec = YamlDecoder::read(std::io::Cursor::new(bytes));
    dec.encoding_trap(trap);
    let r = dec.decode();
    match r {
        Ok(d) => format!("OK {} documents", d.len()),
        // ignore / replace / a callback that continues: decoding "continues as configured", so a
        // DECODE error is a wrong result whatever the number of malformed sequences (a scan error
        // of the decoded text is fine)
        Err(e) if api != "decode:strict" && format!("{e:?}").starts_with("Decode(") => {
            format!("WRONG {api} must continue, decode() gave {}", e.to_string().chars().take(120).collect::<String>())
        }
        Err(e) => format!("ERR {}", e.to_string().chars().take(80).collect::<String>()),
    }
}

fn scenario(shape: &str, depth: usize, api: &str) -> String {
    if let Some(pattern) = shape.strip_prefix("bytes:") {
        return decoder_scenario(pattern, depth, api);
    }
    fn fin<T>(r: Result<Vec<T>, saphyr::ScanError>) -> String {
        match r {
            Ok(d) => {
                let n = d.len();
                std::mem::forget(d); // loading and releasing are separate scenarios
                format!("OK {n} documents")
            }
            Err(e) => format!("ERR {e}"),
        }
    }
    if shape_class(shape) == "tree" {
        let t = tree_for(shape, effective_depth_api(shape, api, depth));
        return match api {
            "drop" => {
                drop(t);
                "OK dropped".into()
            }
            "clone" => {
                let c = t.clone();
                std::mem::forget(c);
                std::mem::forget(t);
                "OK cloned".into()
            }
            "eq" => {
                let u = tree_for(shape, effective_depth_api(shape, api, depth));
                let e = t == u;
                std::mem::forget(u);
                std::mem::forget(t);
                format!("OK eq={e}")
            }
            "hash" => {
                use std::hash::{Hash, Hasher};
                let mut h = std::collections::hash_map::DefaultHasher::new();
                t.hash(&mut h);
                let v = h.finish();
                std::mem::forget(t);
                format!("OK hash={v:x}")
            }
            _ => {
                let mut out = NullWriter(0);
                let mut em = YamlEmitter::new(&mut out);
                match api {
                    "emit:multiline" => em.multiline_strings(true),
                    "emit:noncompact" => em.compact(false),
                    _ => {}
                }
                let r = em.dump(&t);
                std::mem::forget(t);
                match r {
                    Ok(()) => format!("OK emitted {} bytes", out.0),
                    Err(e) => format!("ERR {e:?}"),
                }
            }
        };
    }
    let text = text_for(shape, depth);
    if let Some(node) = api.strip_prefix("roundtrip:") {
        use std::hash::{Hash, Hasher};
        fn life<T: Clone + PartialEq + Hash + std::fmt::Debug>(docs: Vec<T>) -> (usize, u64) {
            let c = docs.clone();
            let same = c == docs;
            // Debug formatting into a counting sink
            let mut sink = NullWriter(0);
            let _ = std::fmt::write(&mut sink, format_args!("{docs:?}"));
            let mut h = std::collections::hash_map::DefaultHasher::new();
            docs.hash(&mut h);
            let n = docs.len();
            drop(c);
            drop(docs);
            (n, h.finish() ^ u64::from(same))
        }
        return match node {
            "Yaml" => match Yaml::load_from_str(&text) {
                Ok(docs) => {
                    let mut out = NullWriter(0);
                    for d in &docs {
                        if let Err(e) = YamlEmitter::new(&mut out).dump(d) {
                            return format!("ERR emit {e:?}");
                        }
                    }
                    let (n, h) = life(docs);
                    format!("OK {n} documents loaded, cloned, compared, hashed ({h:x}), emitted ({} bytes), dropped", out.0)
                }
                Err(e) => format!("ERR {e}"),
            },
            "YamlOwned" => match YamlOwned::load_from_str(&text) {
                Ok(docs) => {
                    let (n, h) = life(docs);
                    format!("OK {n} documents loaded, cloned, compared, hashed ({h:x}), dropped")
                }
                Err(e) => format!("ERR {e}"),
            },
            "MarkedYaml" => match MarkedYaml::load_from_str(&text) {
                Ok(docs) => {
                    let (n, h) = life(docs);
                    format!("OK {n} documents loaded, cloned, compared, hashed ({h:x}), dropped")
                }
                Err(e) => format!("ERR {e}"),
            },
            _ => match MarkedYamlOwned::load_from_str(&text) {
                Ok(docs) => {
                    let (n, h) = life(docs);
                    format!("OK {n} documents loaded, cloned, compared, hashed ({h:x}), dropped")
                }
                Err(e) => format!("ERR {e}"),
            },
        };
    }
    if api == "pull+loader" {
        // the public YamlLoader fed event by event from the pull parser: no Parser::load recursion,
        // and the loader keeps open collections on a heap stack, so this route is constant-stack
        use saphyr::YamlLoader;
        let mut loader: YamlLoader<'_, Yaml<'_>> = YamlLoader::default();
        let mut n = 0u64;
        for ev in Parser::new_from_str(&text) {
            match ev {
                Ok((e, span)) => {
                    n += 1;
                    loader.on_event(e, span);
                }
                Err(e) => {
                    std::mem::forget(loader);
                    return format!("ERR {e} (after {n} events)");
                }
            }
        }
        let docs = loader.into_documents();
        let k = docs.len();
        std::mem::forget(docs); // releasing a deep tree is a separate (known) scenario
        return format!("OK {n} events into {k} documents");
    }
    match api {
        "iter" => {
            let mut n = 0u64;
            for ev in Parser::new_from_str(&text) {
                match ev {
                    Ok(_) => n += 1,
                    Err(e) => return format!("ERR {e} (after {n} events)"),
                }
            }
            format!("OK {n} events")
        }
        "peeknext" => {
            let mut p = Parser::new_from_str(&text);
            let mut n = 0u64;
            loop {
                if let Some(Err(e)) = p.peek() {
                    return format!("ERR {e} (after {n} events)");
                }
                match p.next() {
                    None => break,
                    Some(Ok(_)) => n += 1,
                    Some(Err(e)) => return format!("ERR {e} (after {n} events)"),
                }
            }
            format!("OK {n} events")
        }
        "load" => {
            let mut p = Parser::new_from_str(&text);
            let mut s = Sink(0);
            match p.load(&mut s, true) {
                Ok(()) => format!("OK {} events", s.0),
                Err(e) => format!("ERR {e} (after {} events)", s.0),
            }
        }
        "lazy:Yaml" | "lazy:MarkedYamlOwned" => {
            // deferred resolution: load with early_parse(false), then resolve the whole tree
            macro_rules! lazy {
                ($t:ty, $resolve:expr) => {{
                    let mut p = Parser::new_from_str(&text);
                    let mut loader: saphyr::YamlLoader<'_, $t> = saphyr::YamlLoader::default();
                    loader.early_parse(false);
                    match p.load(&mut loader, true) {
                        Ok(()) => {
                            let mut docs = loader.into_documents();
                            #[allow(clippy::redundant_closure_call)]
                            for d in &mut docs {
                                ($resolve)(d);
                            }
                            let n = docs.len();
                            std::mem::forget(docs);
                            format!("OK {n} documents resolved")
                        }
                        Err(e) => format!("ERR {e}"),
                    }
                }};
            }
            if api == "lazy:Yaml" {
                lazy!(Yaml<'_>, |d: &mut Yaml<'_>| { d.parse_representation_recursive(); })
            } else {
                lazy!(MarkedYamlOwned, |d: &mut MarkedYamlOwned| { d.data.parse_representation_recursive(); })
            }
        }
        "decode" | "decode:utf16le" => {
            // the byte-input route to the same loader: whatever stack it runs the loader on
            let bytes: Vec<u8> = if api == "decode" {
                text.into_bytes()
            } else {
                let mut b = vec![0xFF, 0xFE];
                b.extend(text.encode_utf16().flat_map(u16::to_le_bytes));
                b
            };
            match saphyr::YamlDecoder::read(std::io::Cursor::new(bytes)).decode() {
                Ok(d) => {
                    let n = d.len();
                    std::mem::forget(d);
                    format!("OK {n} documents")
                }
                Err(e) => format!("ERR {e}"),
            }
        }
        "lfs:Yaml" => fin(Yaml::load_from_str(&text)),
        "lfs:YamlOwned" => fin(YamlOwned::load_from_str(&text)),
        "lfs:MarkedYaml" => fin(MarkedYaml::load_from_str(&text)),
        _ => fin(MarkedYamlOwned::load_from_str(&text)),
    }
}

/// Child process entry: run one scenario on a thread with the 8 MiB stack the property names.
/// Split `api@<n>k` into the API proper and the stack size it asks for.
pub fn api_and_stack(api: &str) -> (&str, usize) {
    match api.split_once('@') {
        Some((a, k)) => (a, k.trim_end_matches('k').parse::<usize>().map_or(STACK, |n| n << 10)),
        None => (api, STACK),
    }
}

pub fn child(shape: &str, depth: usize, api: &str) -> i32 {
    let (api, stack) = api_and_stack(api);
    let (shape, api) = (shape.to_string(), api.to_string());
    // the text is rendered on the main thread so that only the library runs on the measured stack
    let h = std::thread::Builder::new().stack_size(stack).spawn(move || scenario(&shape, depth, &api));
    match h.map(std::thread::JoinHandle::join) {
        Ok(Ok(s)) => {
            let line: String = s.chars().take(300).collect();
            println!("{line}");
            0
        }
        Ok(Err(_)) => {
            println!("PANIC");
            3
        }
        Err(e) => {
            println!("HARNESS cannot spawn: {e}");
            2
        }
    }
}

#[derive(Clone, Debug)]
pub struct Scn {
    pub shape: String,
    pub depth: usize,
    pub api: String,
}

#[derive(Clone, Debug)]
pub enum Obs {
    Ok(String),
    Err(String),
    Crash(String),
    /// the scenario unwound (empty message) or judged its own result wrong (`WRONG ...`)
    Panic(String),
    Hang,
    Harness(String),
}

fn hang_limit(scn: &Scn) -> Duration {
    let s: u64 = std::env::var("SIM_C11_TIMEOUT_S").ok().and_then(|v| v.parse().ok()).unwrap_or(30);
    // millions of malformed units take the pinned decoder tens of seconds (super-linear, allowed)
    let k = if scn.shape.starts_with("bytes:") && scn.depth > 2_000_000 { 10 } else { 1 };
    Duration::from_secs(s * k)
}

pub fn observe(s: &Scn) -> Obs {
    let exe = match std::env::current_exe() {
        Ok(e) => e,
        Err(e) => return Obs::Harness(e.to_string()),
    };
    let mut ch = match Command::new(exe)
        .arg("c11-child")
        .arg(&s.shape)
        .arg(s.depth.to_string())
        .arg(&s.api)
        .stdin(Stdio::null())
        .stdout(Stdio::piped())
        .stderr(Stdio::null())
        .spawn()
    {
        Ok(c) => c,
        Err(e) => return Obs::Harness(e.to_string()),
    };
    let t0 = Instant::now();
    let status = loop {
        match ch.try_wait() {
            Ok(Some(st)) => break st,
            Ok(None) => {
                if t0.elapsed() > hang_limit(s) {
                    let _ = ch.kill();
                    let _ = ch.wait();
                    return Obs::Hang;
                }
                std::thread::sleep(Duration::from_millis(5));
            }
            Err(e) => return Obs::Harness(e.to_string()),
        }
    };
    let mut out = String::new();
    if let Some(mut so) = ch.stdout.take() {
        let _ = so.read_to_string(&mut out);
    }
    let line = out.lines().last().unwrap_or("").to_string();
    if let Some(sig) = status.signal() {
        return Obs::Crash(format!("killed by signal {sig}"));
    }
    match status.code() {
        Some(0) if line.starts_with("OK") => Obs::Ok(line),
        Some(0) if line.starts_with("ERR") => Obs::Err(line),
        Some(3) => Obs::Panic(String::new()),
        Some(0) if line.starts_with("WRONG") => Obs::Panic(line),
        Some(c) => Obs::Harness(format!("child exit code {c}: {line}")),
        None => Obs::Crash("no exit code".into()),
    }
}

#[derive(Clone, Debug)]
pub struct Known {
    pub key: String,
    pub min_depth: usize,
    pub desc: String,
}

pub fn load_known(verif_dir: &str, prop: &str) -> Result<Vec<Known>, String> {
    let path = format!("{verif_dir}/known_findings.txt");
    let s = match std::fs::read_to_string(&path) {
        Ok(s) => s,
        Err(e) if e.kind() == std::io::ErrorKind::NotFound => return Ok(vec![]),
        Err(e) => return Err(format!("{path}: {e}")),
    };
    let mut v = Vec::new();
    for line in s.lines() {
        let line = line.trim();
        if !line.starts_with("known:") {
            continue; // comments and `fixed:` entries suppress nothing
        }
        let mut p = None;
        let mut key = None;
        let mut min_depth = 0usize;
        let mut rest = Vec::new();
        for tok in line["known:".len()..].split_whitespace() {
            if let Some(x) = tok.strip_prefix("property=") {
                p = Some(x.to_string());
            } else if let Some(x) = tok.strip_prefix("key=") {
                key = Some(x.to_string());
            } else if let Some(x) = tok.strip_prefix("min_depth=") {
                min_depth = x.parse().map_err(|_| format!("{path}: bad min_depth in {line:?}"))?;
            } else {
                rest.push(tok);
            }
        }
        if p.as_deref() == Some(prop) {
            let key = key.ok_or_else(|| format!("{path}: entry without key: {line:?}"))?;
            v.push(Known { key, min_depth, desc: rest.join(" ") });
        }
    }
    Ok(v)
}

pub fn key_of(s: &Scn) -> String {
    let has_explicit_keys = matches!(s.shape.as_str(), "expkey" | "alt") || s.shape.starts_with("randnest:");
    if s.api.starts_with("pull+loader") && has_explicit_keys {
        // nested mappings used as keys are hashed (recursively) when the loader inserts them
        return format!("block-keys/{}", s.api);
    }
    // the emitter options do not change its recursion: one finding, one key
    let api = if s.api.starts_with("emit") { "emit" } else { s.api.as_str() };
    format!("{}/{}", shape_class(&s.shape), api)
}

fn grid(cfg: &Config, known: &[Known]) -> Vec<Scn> {
    let thorough = cfg.tier == "thorough";
    let base: Vec<usize> = if thorough { vec![10, 100, 1000, 3000, 10_000, 100_000] } else { vec![1000, 100_000] };
    let mut r = SplitMix64::new(mix(cfg.seed, 11, 0));
    let mut v = Vec::new();
    let depths_for = |r: &mut SplitMix64| -> Vec<usize> {
        let mut d: Vec<usize> = base.clone();
        if thorough {
            // jitter +-10 % so that a limit placed exactly at a power of ten cannot hide
            let extra: Vec<usize> = base
                .iter()
                .filter(|b| **b >= 100)
                .map(|b| {
                    let j = r.usize(b / 5 + 1);
                    b - b / 10 + j
                })
                .collect();
            d.extend(extra);
            d.extend([255, 256, 257, 32_767, 32_768, 32_769, 65_535, 65_536, 65_537]);
        } else {
            // just below the depth from which the listed aborts are the known ones: an abort here
            // means the stack available per level has shrunk (larger frames, or a smaller stack)
            d.push(2900 + r.usize(600));
            let b = *r.pick(&[10_000usize, 30_000]);
            d.push(b - b / 10 + r.usize(b / 5 + 1));
            // at and just past the widths of 15/16-bit counters (indentation widths, depths)
            d.push(32_768 + r.usize(2));
            d.push(65_536 + r.usize(2));
        }
        d
    };
    // a listed finding with its own threshold gets a probe just below that threshold
    let own_probe = |r: &mut SplitMix64, shape: &str, api: &str| -> Option<usize> {
        let key = key_of(&Scn { shape: shape.into(), depth: 0, api: api.into() });
        known.iter().find(|k| k.key == key && k.min_depth > 0 && k.min_depth != 3500).map(|k| k.min_depth - 1 - r.usize(k.min_depth / 8))
    };
    for shape in TEXT_SHAPES {
        for api in TEXT_APIS {
            let mut ds = depths_for(&mut r);
            ds.extend(own_probe(&mut r, shape, api));
            for d in ds {
                v.push(Scn { shape: shape.into(), depth: d, api: api.into() });
            }
        }
    }
    // the pull parser far beyond 10^6 levels: past 2^21 (thorough: 2^22) states on its heap stack
    for shape in ["seq", "expkey", "alt"] {
        for api in ["iter@256k", "peeknext@256k"] {
            v.push(Scn { shape: shape.into(), depth: (1 << 21) + 5 + r.usize(3), api: api.into() });
            if thorough {
                v.push(Scn { shape: shape.into(), depth: (1 << 22) + 5, api: api.into() });
            }
        }
    }
    // every token of the YAML token alphabet, and every ordered pair, repeated: the pull parser
    // must be constant-stack whatever is repeated
    let nt = crate::gen::TOKENS.len();
    for i in 0..nt {
        let mut ds = vec![100_000 - r.usize(10_000)];
        if thorough {
            ds.push(1_000_000 - r.usize(100_000));
        }
        for d in ds {
            for api in ["iter@256k", "peeknext@256k"] {
                v.push(Scn { shape: format!("rep:{i}"), depth: d, api: api.into() });
            }
        }
        for j in 0..nt {
            if i != j {
                v.push(Scn { shape: format!("rep:{i}:{j}"), depth: 50_000 - r.usize(5_000), api: "iter@256k".into() });
            }
        }
    }
    // seeded nests with dedents: every pull API on the small stack, one loader
    let n_rand = if thorough { 24 } else { 6 };
    for k in 0..n_rand {
        let shape = format!("randnest:{}", r.below(1_000_000));
        let d = if k % 3 == 2 { 1_000_000 - r.usize(200_000) } else { 100_000 - r.usize(20_000) };
        for api in SMALL_STACK_APIS {
            v.push(Scn { shape: shape.clone(), depth: d, api: api.into() });
        }
        v.push(Scn { shape: shape.clone(), depth: d.min(100_000), api: "load".into() });
        // the same nest with sequence openers only: the loader route must be constant-stack on it
        let seq_shape = shape.replace("randnest:", "randnest-seq:");
        for api in SMALL_STACK_APIS {
            v.push(Scn { shape: seq_shape.clone(), depth: d, api: api.into() });
        }
    }
    for shape in TREE_SHAPES {
        for api in TREE_APIS {
            for d in depths_for(&mut r) {
                v.push(Scn { shape: shape.into(), depth: d, api: api.into() });
            }
        }
    }
    // every special string leaf at the bottom of short chains (and one long one), emitted with
    // every option: what the emitter decides per leaf must not depend on where the leaf sits
    for kind in ["seq", "map"] {
        for (li, _) in LEAVES.iter().enumerate() {
            for d in [0usize, 1, 2, 3, 4, 5, 6, 7, 9, 12, 33, 100, 1000] {
                for api in ["emit", "emit:multiline", "emit:noncompact"] {
                    v.push(Scn { shape: format!("tree-leaf:{kind}:{li}"), depth: d, api: api.into() });
                }
            }
        }
    }
    // wide documents: the whole life cycle
    for shape in WIDE_SHAPES {
        for api in WIDE_APIS {
            let mut ds = vec![100_000usize - r.usize(10_000)];
            if thorough {
                ds.push(1_000_000 - r.usize(100_000));
                ds.push(1000);
            }
            for d in ds {
                v.push(Scn { shape: shape.into(), depth: d, api: api.into() });
            }
        }
    }
    // every repeated top-level construct (the instruction clock's input families), long and flat:
    // the pull interface on the small stack, the push interface and one full life cycle on 8 MiB
    for fam in crate::scale::FAMILIES {
        if fam.contains("deep-nest") {
            // deep, not flat: the block shapes above cover nesting
            continue;
        }
        let shape = format!("family:{fam}");
        let size = if thorough { 1_000_000 - r.usize(100_000) } else { 200_000 - r.usize(20_000) };
        for api in ["iter@256k", "peeknext@256k", "load", "roundtrip:Yaml", "roundtrip:MarkedYamlOwned"] {
            v.push(Scn { shape: shape.clone(), depth: size, api: api.into() });
        }
    }
    // pull interface on a small stack, also at depth 10^6 where the text stays linear in size
    for shape in TEXT_SHAPES {
        for api in SMALL_STACK_APIS {
            let mut ds = vec![100_000usize - r.usize(10_000)];
            let linear = !matches!(shape, "mapnl");
            if linear && (thorough || matches!(shape, "seq" | "expkey" | "seq-dedent" | "flowmap")) {
                ds.push(1_000_000 - r.usize(100_000));
            }
            if thorough {
                ds.push(1000);
                ds.push(10_000);
            }
            for d in ds {
                v.push(Scn { shape: shape.into(), depth: d, api: api.into() });
            }
        }
    }
    v
}

pub fn run(cfg: &Config) -> i32 {
    let t0 = Instant::now();
    let known = match load_known(&cfg.verif_dir, "C11") {
        Ok(k) => k,
        Err(e) => {
            eprintln!("harness error: {e}");
            return 2;
        }
    };
    let scns = Arc::new(grid(cfg, &known));
    let results: Arc<Mutex<Vec<(usize, Obs)>>> = Arc::new(Mutex::new(Vec::new()));
    let next = Arc::new(AtomicUsize::new(0));
    let mut hs = Vec::new();
    for _ in 0..cfg.jobs {
        let scns = scns.clone();
        let results = results.clone();
        let next = next.clone();
        hs.push(std::thread::spawn(move || loop {
            let k = next.fetch_add(1, Ordering::SeqCst);
            if k >= scns.len() {
                break;
            }
            let o = observe(&scns[k]);
            results.lock().unwrap().push((k, o));
        }));
    }
    for h in hs {
        let _ = h.join();
    }
    let mut results = Arc::try_unwrap(results).map(|m| m.into_inner().unwrap()).unwrap_or_default();
    results.sort_by_key(|r| r.0);

    let mut counts: BTreeMap<String, u64> = BTreeMap::new();
    let mut known_hit: BTreeMap<String, (usize, String)> = BTreeMap::new();
    let mut violations: Vec<(Scn, String, String)> = Vec::new();
    let mut samples = Vec::new();
    let mut distinct = std::collections::BTreeSet::new();
    let mut exit = 0;
    for (k, o) in &results {
        let s = &scns[*k];
        let (kind, text) = match o {
            Obs::Ok(l) => ("ok", l.clone()),
            Obs::Err(l) => ("error-value", l.clone()),
            Obs::Crash(l) => ("CRASH", l.clone()),
            Obs::Panic(m) => ("PANIC", if m.is_empty() { "scenario panicked".to_string() } else { m.clone() }),
            Obs::Hang => ("HANG", "no exit within the per-scenario wall-clock limit (30 s by default)".into()),
            Obs::Harness(l) => ("harness", l.clone()),
        };
        *counts.entry(kind.to_string()).or_default() += 1;
        if s.depth >= 100 {
            distinct.insert((s.shape.clone(), s.depth, s.api.clone()));
        }
        if samples.len() < 400 {
            samples.push(J::obj()
                .with("shape", J::str(&s.shape))
                .with("depth", J::int(s.depth))
                .with("api", J::str(&s.api))
                .with("observed", J::str(kind))
                .with("detail", J::str(&text.chars().take(120).collect::<String>())));
        }
        match o {
            Obs::Ok(_) | Obs::Err(_) => {}
            Obs::Harness(l) => {
                eprintln!("harness error: scenario {s:?}: {l}");
                exit = 2;
            }
            Obs::Crash(_) | Obs::Panic(_) | Obs::Hang => {
                let key = key_of(s);
                let class = match o {
                    Obs::Crash(_) => "CRASH(signal)",
                    Obs::Panic(ref m) if m.starts_with("WRONG") => "WRONG-RESULT(continuing-trap)",
                    Obs::Panic(_) => "PANIC",
                    _ => "HANG(watchdog)",
                };
                let listed = known.iter().find(|kf| kf.key == key && s.depth >= kf.min_depth && matches!(o, Obs::Crash(_)));
                if let Some(kf) = listed {
                    let e = known_hit.entry(key.clone()).or_insert((s.depth, kf.desc.clone()));
                    e.0 = e.0.min(s.depth);
                } else {
                    violations.push((s.clone(), class.to_string(), format!("{class}: shape={} depth={} api={} ({text}); key {key} is not a listed known finding at this depth", s.shape, s.depth, s.api)));
                }
            }
        }
    }
    for (key, (depth, desc)) in &known_hit {
        println!("KNOWN-FINDING: property=C11 key={key} stack overflow (process abort) from depth {depth} on an 8 MiB stack: {desc}");
    }
    let mut vjson = J::Null;
    // report a crash before a panic before a stall
    violations.sort_by_key(|v| match v.1.as_str() {
        "CRASH(signal)" => 0,
        "PANIC" => 1,
        _ => 2,
    });
    if let Some((s, class, detail)) = violations.first() {
        let case = Case { prop: "C11".into(), shape: s.shape.clone(), depth: s.depth, api: s.api.clone(), gen: "grid".into(), ..Case::default() };
        // minimise: smallest depth (by bisection over the child observer) at which it still crashes
        let mut lo = 1usize;
        let mut hi = s.depth;
        let mut steps = 0u64;
        while lo < hi && steps < 24 && class != "HANG(watchdog)" {
            let mid = lo + (hi - lo) / 2;
            steps += 1;
            let o = observe(&Scn { shape: s.shape.clone(), depth: mid, api: s.api.clone() });
            if matches!(o, Obs::Crash(_) | Obs::Panic(_) | Obs::Hang) {
                hi = mid;
            } else {
                lo = mid + 1;
            }
        }
        let mut mc = case.clone();
        mc.depth = hi;
        let path = format!("{}/replays/C11-{}-{}-{}-{}.json", cfg.verif_dir, cfg.seed, s.shape, s.api.replace(':', "_"), hi);
        let rj = crate::batch::replay_json(cfg, 0, &mc, class, detail, Some((&case, detail)), steps);
        let _ = std::fs::create_dir_all(format!("{}/replays", cfg.verif_dir));
        if let Err(e) = std::fs::write(&path, rj.to_pretty()) {
            eprintln!("harness error: cannot write {path}: {e}");
            return 2;
        }
        println!("violation class={class} detail={detail} (minimised depth {hi})");
        for (s2, c2, _) in violations.iter().skip(1).take(20) {
            println!("also: {c2} shape={} depth={} api={}", s2.shape, s2.depth, s2.api);
        }
        println!("VIOLATION property=C11 replay={path}");
        vjson = J::obj().with("class", J::str(class)).with("detail", J::str(detail)).with("replay", J::str(&path)).with("total_unlisted", J::int(violations.len()));
        if exit == 0 {
            exit = 1;
        }
    }
    let wall = t0.elapsed().as_secs_f64();
    if cfg.write_evidence {
        let mut cov = J::obj();
        cov.set("evaluations", J::int(results.len()));
        cov.set("distinct_nontrivial", J::int(distinct.len()));
        cov.set("rule", J::str("One case = (nesting shape, depth, API) executed in a child process on a thread with an 8 MiB stack; the parent observes the exit status. The grid is enumerated completely; the seed only jitters depths by +-10 %. Distinct = distinct (shape, depth, API); non-trivial = depth >= 100."));
        cov.set("samples", J::Arr(samples.iter().step_by((samples.len() / 12).max(1)).cloned().collect()));
        cov.set("exhaustive", J::Bool(true));
        cov.set("grid", J::obj()
            .with("text_shapes", J::Arr(TEXT_SHAPES.iter().map(|s| J::str(s)).collect()))
            .with("tree_shapes", J::Arr(TREE_SHAPES.iter().map(|s| J::str(s)).collect()))
            .with("text_apis", J::Arr(TEXT_APIS.iter().map(|s| J::str(s)).collect()))
            .with("tree_apis", J::Arr(TREE_APIS.iter().map(|s| J::str(s)).collect())));
        cov.set("observations", J::from_counts(&counts));
        cov.set("fault_counts", J::obj().with("finite_stack_8MiB(scenarios run under it)", J::int(results.len())).with("stack_overflow_observed", J::int(*counts.get("CRASH").unwrap_or(&0))));
        cov.set("known_findings_reproduced", J::Arr(known_hit.iter().map(|(k, (d, _))| J::obj().with("key", J::str(k)).with("smallest_crashing_depth_in_grid", J::int(*d))).collect()));
        cov.set("known_findings_listed", J::int(known.len()));
        cov.set("components", J::obj()
            .with("real", J::Arr(["Scanner", "Parser (iterator, peek/next, load)", "YamlLoader + 4 node types", "derived Drop/Clone/PartialEq/Hash of Yaml", "YamlEmitter"].iter().map(|s| J::str(s)).collect()))
            .with("simulated", J::Arr(["finite stack (8 MiB thread in a child process)", "crash observer (parent process)"].iter().map(|s| J::str(s)).collect())));
        cov.set("runs_per_hour", J::int((results.len() as f64 / wall.max(0.001) * 3600.0) as i64));
        cov.set("seeds", J::Arr(vec![J::int(cfg.seed as i64)]));
        cov.set("profile", J::str(&cfg.profile));
        if vjson != J::Null {
            cov.set("violation", vjson.clone());
        }
        let ev = J::obj()
            .with("property_id", J::str("C11"))
            .with("tier", J::str(&cfg.tier))
            .with("seed", J::int(cfg.seed as i64))
            .with("level", J::str("fault_enumeration"))
            .with("coverage", cov)
            .with("assumptions", J::Arr([
                "Stack consumption is that of this build profile (opt-level 2, debug assertions on); a different profile has different frame sizes.",
                "Depths are sampled on a grid (powers of ten with jitter), not every depth.",
                "Known findings listed in /verif/known_findings.txt are reported as KNOWN-FINDING, not as violations; any crash outside the listed (shape class, API, min depth) is a violation.",
            ].iter().map(|s| J::str(s)).collect()))
            .with("wall_s", J::Float(wall))
            .with("violations", J::int(i64::from(vjson != J::Null)));
        let _ = std::fs::create_dir_all(format!("{}/evidence", cfg.verif_dir));
        if let Err(e) = std::fs::write(format!("{}/evidence/C11.json", cfg.verif_dir), ev.to_pretty()) {
            eprintln!("harness error: cannot write evidence: {e}");
            return 2;
        }
    }
    println!(
        "C11 {} seed={} profile={}: {} scenarios in {:.1}s: {:?}; known findings reproduced: {}",
        cfg.tier, cfg.seed, cfg.profile, results.len(), wall, counts, known_hit.len()
    );
    exit
}

/// C18's stack sub-check: long runs of malformed (and of valid expanding) input through every
/// trap, in child processes on the 256 KiB and 8 MiB stacks. Decoding is a loop: its stack use
/// must not depend on how many malformed sequences the input holds.
pub fn decoder_grid(cfg: &Config) -> (i32, J) {
    let thorough = cfg.tier == "thorough";
    let mut scns = Vec::new();
    for p in BYTE_PATTERNS {
        for trap in ["decode:strict", "decode:ignore", "decode:replace", "decode:call"] {
            for stack in ["@256k", ""] {
                let mut ns = vec![100_000usize];
                if thorough {
                    ns.push(1_000_000);
                    ns.push(1000);
                }
                if thorough && stack.is_empty() {
                    // past 2^21 and 2^22 malformed or expanding units (the pinned decoder needs
                    // seconds for these: its work grows faster than the input, which C18 does
                    // not forbid)
                    ns.push((1 << 21) + 3);
                    ns.push((1 << 22) + 3);
                }
                for n in ns {
                    scns.push(Scn { shape: format!("bytes:{p}"), depth: n, api: format!("{trap}{stack}") });
                }
            }
        }
    }
    let (code, mut ev) = aux_grid(cfg, "C18", "decoder stack sub-check", &format!("{} byte patterns x 4 traps x 2 stacks", BYTE_PATTERNS.len()), scns);
    if ev != J::Null {
        ev.set("patterns", J::Arr(BYTE_PATTERNS.iter().map(|p| J::str(p)).collect()));
        ev.set("stacks", J::Arr(vec![J::str("256 KiB"), J::str("8 MiB")]));
    }
    (code, ev)
}

/// C01's "never aborts" for FLAT inputs: one character repeated 10^5..10^6 times inside every
/// kind of construct, through the pull parser on a 256 KiB stack and the loaders, deferred
/// resolution and the decoder on 8 MiB. Nothing here nests, so no listed finding applies: an
/// abort means that something recurses (or reserves stack) per input CHARACTER.
pub fn flat_grid(cfg: &Config) -> (i32, J) {
    let thorough = cfg.tier == "thorough";
    let mut r = SplitMix64::new(mix(cfg.seed, 1, 0xF1A7));
    let mut scns = Vec::new();
    for (c, _) in RUN_CONTEXTS.iter().enumerate() {
        for ch in RUN_CHARS.chars() {
            for api in RUN_APIS {
                let mut ns = vec![200_000 - r.usize(20_000)];
                if thorough {
                    ns.push(2_000_000 - r.usize(200_000));
                    ns.push(4_000 + r.usize(1000));
                }
                for n in ns {
                    scns.push(Scn { shape: format!("run:{c}:{}", ch as u32), depth: n, api: api.into() });
                }
            }
        }
    }
    let (code, mut ev) = aux_grid(cfg, "C01", "flat-input stack sub-check", &format!("{} constructs x {} repeated characters x {} APIs", RUN_CONTEXTS.len(), RUN_CHARS.chars().count(), RUN_APIS.len()), scns);
    if ev != J::Null {
        ev.set("constructs", J::Arr(RUN_CONTEXTS.iter().map(|p| J::str(p)).collect()));
        ev.set("repeated_characters", J::str(RUN_CHARS));
        ev.set("apis", J::Arr(RUN_APIS.iter().map(|p| J::str(p)).collect()));
    }
    (code, ev)
}

fn aux_grid(cfg: &Config, prop: &str, label: &str, dims: &str, scns: Vec<Scn>) -> (i32, J) {
    let t0 = Instant::now();
    let scns = Arc::new(scns);
    let results: Arc<Mutex<Vec<(usize, Obs)>>> = Arc::new(Mutex::new(Vec::new()));
    let next = Arc::new(AtomicUsize::new(0));
    let mut hs = Vec::new();
    for _ in 0..cfg.jobs {
        let (scns, results, next) = (scns.clone(), results.clone(), next.clone());
        hs.push(std::thread::spawn(move || loop {
            let k = next.fetch_add(1, Ordering::SeqCst);
            if k >= scns.len() {
                break;
            }
            let o = observe(&scns[k]);
            results.lock().unwrap().push((k, o));
        }));
    }
    for h in hs {
        let _ = h.join();
    }
    let mut results = results.lock().unwrap().clone();
    results.sort_by_key(|r| r.0);
    let mut counts: BTreeMap<String, u64> = BTreeMap::new();
    let mut bad: Vec<(Scn, String, String)> = Vec::new();
    for (k, o) in &results {
        let s = &scns[*k];
        let (kind, text) = match o {
            Obs::Ok(l) => ("ok", l.clone()),
            Obs::Err(l) => ("error-value", l.clone()),
            Obs::Crash(l) => ("CRASH", l.clone()),
            Obs::Panic(m) => ("PANIC", if m.is_empty() { "scenario panicked".to_string() } else { m.clone() }),
            Obs::Hang => ("HANG", "no exit within the per-scenario wall-clock limit".into()),
            Obs::Harness(l) => ("harness", l.clone()),
        };
        *counts.entry(kind.to_string()).or_default() += 1;
        match o {
            Obs::Ok(_) | Obs::Err(_) => {}
            Obs::Harness(l) => {
                eprintln!("harness error: {label} scenario {s:?}: {l}");
                return (2, J::Null);
            }
            _ => {
                let class = match o {
                    Obs::Crash(_) => "CRASH(signal)",
                    Obs::Panic(ref m) if m.starts_with("WRONG") => "WRONG-RESULT(continuing-trap)",
                    Obs::Panic(_) => "PANIC",
                    _ => "HANG(watchdog)",
                };
                bad.push((s.clone(), class.to_string(), format!("{class}: {} x {} through {} ({text})", s.shape, s.depth, s.api)));
            }
        }
    }
    bad.sort_by_key(|v| match v.1.as_str() {
        "CRASH(signal)" => 0,
        "PANIC" => 1,
        _ => 2,
    });
    let mut exit = 0;
    let mut vj = J::Null;
    if let Some((s, class, detail)) = bad.first() {
        // smallest run length that still crashes
        let (mut lo, mut hi, mut steps) = (1usize, s.depth, 0u64);
        while lo < hi && steps < 24 && class != "HANG(watchdog)" {
            let mid = lo + (hi - lo) / 2;
            steps += 1;
            if matches!(observe(&Scn { shape: s.shape.clone(), depth: mid, api: s.api.clone() }), Obs::Crash(_) | Obs::Panic(_)) {
                hi = mid;
            } else {
                lo = mid + 1;
            }
        }
        let case = Case { prop: "C11".into(), shape: s.shape.clone(), depth: hi, api: s.api.clone(), gen: "aux-grid".into(), ..Case::default() };
        let path = format!("{}/replays/{prop}-{}-stack-{}-{}-{}.json", cfg.verif_dir, cfg.seed, s.shape.replace(':', "_"), s.api.replace([':', '@'], "_"), hi);
        let mut rj = crate::batch::replay_json(cfg, 0, &case, class, detail, None, steps);
        rj.set("property", J::str(prop));
        let _ = std::fs::create_dir_all(format!("{}/replays", cfg.verif_dir));
        if std::fs::write(&path, rj.to_pretty()).is_err() {
            eprintln!("harness error: cannot write {path}");
            return (2, J::Null);
        }
        println!("violation class={class} detail={detail} (minimised run length {hi})");
        println!("VIOLATION property={prop} replay={path}");
        vj = J::obj().with("class", J::str(class)).with("detail", J::str(detail)).with("replay", J::str(&path));
        exit = 1;
    }
    let wall = t0.elapsed().as_secs_f64();
    println!("{prop} {label}: {} scenarios ({dims}) in {:.1}s: {:?}", results.len(), wall, counts);
    let mut ev = J::obj();
    ev.set("scenarios", J::int(results.len()));
    ev.set("observations", J::from_counts(&counts));
    ev.set("wall_s", J::Float(wall));
    if vj != J::Null {
        ev.set("violation", vj);
    }
    (exit, ev)
}

/// Tool mode: for every (shape, API) that crashes at depth 10^5, bisect the smallest crashing
/// depth. Used to author /verif/known_findings.txt; never run by a registered check.
pub fn thresholds() -> i32 {
    let mut pairs: Vec<(String, String)> = Vec::new();
    for s in TEXT_SHAPES {
        for a in TEXT_APIS {
            pairs.push((s.into(), a.into()));
        }
    }
    for s in TREE_SHAPES {
        for a in TREE_APIS {
            pairs.push((s.into(), a.into()));
        }
    }
    let pairs = Arc::new(pairs);
    let next = Arc::new(AtomicUsize::new(0));
    let out: Arc<Mutex<Vec<String>>> = Arc::new(Mutex::new(Vec::new()));
    let mut hs = Vec::new();
    for _ in 0..16 {
        let (pairs, next, out) = (pairs.clone(), next.clone(), out.clone());
        hs.push(std::thread::spawn(move || loop {
            let k = next.fetch_add(1, Ordering::SeqCst);
            if k >= pairs.len() {
                break;
            }
            let (shape, api) = &pairs[k];
            let top = Scn { shape: shape.clone(), depth: 100_000, api: api.clone() };
            if !matches!(observe(&top), Obs::Crash(_)) {
                continue;
            }
            let (mut lo, mut hi) = (1usize, 100_000usize);
            while lo < hi {
                let mid = lo + (hi - lo) / 2;
                if matches!(observe(&Scn { shape: shape.clone(), depth: mid, api: api.clone() }), Obs::Crash(_)) {
                    hi = mid;
                } else {
                    lo = mid + 1;
                }
            }
            out.lock().unwrap().push(format!("{}/{} shape={} smallest_crashing_depth={}", shape_class(shape), api, shape, hi));
        }));
    }
    for h in hs {
        let _ = h.join();
    }
    let mut v = out.lock().unwrap().clone();
    v.sort();
    for l in v {
        println!("{l}");
    }
    0
}

pub fn replay(case: &Case, path: &str) -> i32 {
    let s = Scn { shape: case.shape.clone(), depth: case.depth, api: case.api.clone() };
    match observe(&s) {
        Obs::Ok(l) | Obs::Err(l) => {
            println!("replay of {path}: no violation ({l})");
            0
        }
        Obs::Harness(l) => {
            eprintln!("harness error: {l}");
            2
        }
        o => {
            let class = match o {
                Obs::Crash(_) => "CRASH(signal)",
                Obs::Panic(ref m) if m.starts_with("WRONG") => "WRONG-RESULT(continuing-trap)",
                    Obs::Panic(_) => "PANIC",
                _ => "HANG(watchdog)",
            };
            println!("violation class={class} detail=shape={} depth={} api={} {o:?}", s.shape, s.depth, s.api);
            let prop = if s.shape.starts_with("bytes:") { "C18" } else if s.shape.starts_with("run:") { "C01" } else { "C11" };
            println!("VIOLATION property={prop} replay={path}");
            1
        }
    }
}
