//! C18 — byte input decodes to the same documents, and decoding always ends.
//!
//! Seams: `std::io::Read` under `YamlDecoder` (S4: short reads, EINTR, hard error, early EOF; the
//! stored bytes themselves may be torn or corrupted), the user trap callback (S5) and the decode
//! loop's growth step, observed through the guarded step-clock hook.
//!
//! Two configurations, reported separately:
//!  * fault-free: stored bytes intact (the reader still does short reads and EINTR, which are
//!    legal reader behaviour, not faults). Oracle: `decode()` == `Yaml::load_from_str(text)`.
//!  * fault-injecting: oracle relaxed narrowly — terminates within budget, `Err(IO)` iff a hard
//!    error was injected, otherwise equal to an independent reference decoder applied to the
//!    bytes actually delivered.

use crate::case::{Case, Outcome};
use crate::clock::{self, probe, Probe};
use crate::gen::{decoder_text, Corpus, Gen, Swarm};
use crate::rng::{Fp, SplitMix64, Tape};
use crate::trace::{guarded, Guarded};
use saphyr::{LoadableYamlNode, YAMLDecodingTrap, Yaml, YamlDecoder};
use std::borrow::Cow;
use std::cell::RefCell;
use std::io::{self, Read};
use std::ops::ControlFlow;

pub const SMALL_ALPHABET: [u8; 10] = [0x00, 0x0A, 0x20, 0x2D, 0x41, 0x80, 0xC3, 0xE4, 0xFE, 0xFF];
pub const TRAPS: [&str; 4] = ["strict", "ignore", "replace", "call"];
pub const ENCS: [&str; 3] = ["utf-8", "utf-16le", "utf-16be"];
const BIG: &str = "zzzzzzzzzzzzzzzzzzzzzzzzzzzzzzzzzzzzzzzzzzzzzzzzzzzzzzzzzzzzzzzz"; // 64 bytes

pub fn small_count(l: usize) -> u64 {
    (0..=l).map(|k| 10u64.pow(k as u32)).sum::<u64>() * 4
}

/// Second enumeration: UTF-8 malformation shapes (overlong leads C0/E0 80/F0 80, UTF-8-encoded
/// surrogates ED A0, beyond-range F4 90, 5-byte lead F8, truncated sequences followed by ASCII).
pub const UTF8_SHAPES: [u8; 12] = [0x41, 0x80, 0xBF, 0xC0, 0xC2, 0xE0, 0xED, 0xA0, 0xF0, 0xF4, 0x90, 0xF8];
pub fn shapes_count() -> u64 {
    (1..=4u32).map(|k| 12u64.pow(k)).sum::<u64>() * 4
}
fn shape_bytes(mut i: u64) -> Vec<u8> {
    let mut len = 1usize;
    loop {
        let n = 12u64.pow(len as u32);
        if i < n {
            break;
        }
        i -= n;
        len += 1;
    }
    let mut v = vec![b'a'];
    for _ in 0..len {
        v.push(UTF8_SHAPES[(i % 12) as usize]);
        i /= 12;
    }
    v
}

/// Sized inputs with a chosen tail ("Z-sized-tail"): the total stored length sits on / next to a
/// block boundary (64 KiB, 1 MiB, 2 MiB) and the input ends in a complete character, a truncated
/// UTF-8 sequence, a lone UTF-16 lead surrogate or an odd trailing byte.
pub const Z_TOTALS: [usize; 9] = [65_535, 65_536, 65_537, 1_048_575, 1_048_576, 1_048_577, 2_097_151, 2_097_152, 2_097_153];
/// A short list of very large inputs (16 MiB and 32 MiB +-1): UTF-8 and UTF-16LE, every tail, Strict and Call.
pub const HUGE_TOTALS: [usize; 4] = [16_777_215, 16_777_216, 16_777_217, 33_554_432];
/// The 16 / 32 MiB inputs cost about a second each: thorough tier only.
pub static HUGE_ON: std::sync::atomic::AtomicBool = std::sync::atomic::AtomicBool::new(false);
pub fn huge_count() -> u64 {
    if HUGE_ON.load(std::sync::atomic::Ordering::Relaxed) {
        (HUGE_TOTALS.len() * Z_TAILS.len() * 2 * 2) as u64
    } else {
        0
    }
}
pub const Z_TAILS: [&str; 5] = ["complete", "utf8-lead-only", "utf8-2-of-3", "utf16-lone-lead-surrogate", "odd-trailing-byte"];
pub fn ztail_count() -> u64 {
    (Z_TOTALS.len() * Z_TAILS.len() * 3 * 2 * 4) as u64 + huge_count()
}

fn ztail_case(k: u64) -> Case {
    let (trap, bom, enc, tail, total) = if k < huge_count() {
        let trap = ["strict", "call"][(k % 2) as usize];
        let k = k / 2;
        let enc = ["utf-8", "utf-16le"][(k % 2) as usize];
        let k = k / 2;
        let tail = Z_TAILS[(k % Z_TAILS.len() as u64) as usize];
        let total = HUGE_TOTALS[((k / Z_TAILS.len() as u64) % HUGE_TOTALS.len() as u64) as usize];
        (trap, false, enc, tail, total)
    } else {
        let k = k - huge_count();
        let trap = TRAPS[(k % 4) as usize];
        let k = k / 4;
        let bom = k % 2 == 1;
        let k = k / 2;
        let enc = ENCS[(k % 3) as usize];
        let k = k / 3;
        let tail = Z_TAILS[(k % Z_TAILS.len() as u64) as usize];
        let total = Z_TOTALS[((k / Z_TAILS.len() as u64) % Z_TOTALS.len() as u64) as usize];
        (trap, bom, enc, tail, total)
    };
    // the tail bytes, in the stream's encoding
    let tail_bytes: Vec<u8> = match (tail, enc) {
        ("complete", _) => vec![],
        ("utf8-lead-only", "utf-8") => vec![0xE4],
        ("utf8-2-of-3", "utf-8") => vec![0xE4, 0xB8],
        ("utf16-lone-lead-surrogate", "utf-16le") => vec![0x3D, 0xD8],
        ("utf16-lone-lead-surrogate", "utf-16be") => vec![0xD8, 0x3D],
        ("odd-trailing-byte", _) => vec![0x41],
        // a tail that does not apply to this encoding: use the nearest equivalent
        (_, "utf-8") => vec![0xF0, 0x9F],
        (_, "utf-16le") => vec![0x3D, 0xD8],
        _ => vec![0xD8, 0x3D],
    };
    let bom_len = if !bom { 0 } else if enc == "utf-8" { 3 } else { 2 };
    let unit = if enc == "utf-8" { 1 } else { 2 };
    let body_bytes = total.saturating_sub(bom_len + tail_bytes.len());
    let n_chars = body_bytes / unit;
    let mut text = String::with_capacity(n_chars + 8);
    for i in 0..n_chars {
        text.push(if i == 0 { 'k' } else if i == 1 { ':' } else if i == 2 { ' ' } else if i % 120 == 119 { ' ' } else { (b'a' + (i % 26) as u8) as char });
    }
    let mut bytes = encode(&text, enc, bom);
    // UTF-16 bodies have even length: an odd total is reached through the tail
    bytes.extend_from_slice(&tail_bytes);
    Case {
        prop: "C18".into(),
        gen: "Z-sized-tail".into(),
        bytes,
        enc: enc.into(),
        bom,
        trap: trap.into(),
        fault_free: false,
        faults: vec![format!("sized-tail:{total}:{tail}")],
        ..Case::default()
    }
}

/// Third enumeration: sequences of byte *tokens* — valid characters that look like the
/// decoder's own output (U+FFFD), valid multi-byte characters, and malformed pieces — so that
/// "valid U+FFFD next to a malformation", "valid CJK next to a truncated sequence" etc. occur.
pub const BYTE_TOKENS: [&[u8]; 14] = [
    b"A", b"\n", b": ", &[0xEF, 0xBF, 0xBD], &[0xE4, 0xB8, 0xAD], &[0xF0, 0x9F, 0x98, 0x80], &[0x80], &[0xC3], &[0xFF], &[0xE4, 0xB8],
    // every other character some definition calls a line end (positions derived from the text)
    b"\r", &[0xE2, 0x80, 0xA8], &[0xE2, 0x80, 0xA9], &[0xC2, 0x85],
];
const NBT: u64 = BYTE_TOKENS.len() as u64;
pub fn byte_token_count() -> u64 {
    (1..=4u32).map(|k| NBT.pow(k)).sum::<u64>() * 4 * 2
}
fn byte_token_case(k: u64) -> Case {
    let trap = TRAPS[(k % 4) as usize];
    let k = k / 4;
    let utf16 = k % 2 == 1;
    let mut i = k / 2;
    let mut len = 1usize;
    loop {
        let n = NBT.pow(len as u32);
        if i < n {
            break;
        }
        i -= n;
        len += 1;
    }
    let mut bytes = vec![b'k'];
    for _ in 0..len {
        bytes.extend_from_slice(BYTE_TOKENS[(i % NBT) as usize]);
        i /= NBT;
    }
    if utf16 {
        // the same token sequence as UTF-16LE: valid tokens become their UTF-16 form, malformed
        // pieces become lone surrogates / an odd byte
        let mut out = vec![0xFF, 0xFE];
        let mut j = 0;
        while j < bytes.len() {
            let b = bytes[j];
            let (units, adv): (Vec<u16>, usize) = if b < 0x80 {
                (vec![u16::from(b)], 1)
            } else if bytes[j..].starts_with(&[0xEF, 0xBF, 0xBD]) {
                (vec![0xFFFD], 3)
            } else if bytes[j..].starts_with(&[0xE4, 0xB8, 0xAD]) {
                (vec![0x4E2D], 3)
            } else if bytes[j..].starts_with(&[0xE2, 0x80, 0xA8]) {
                (vec![0x2028], 3)
            } else if bytes[j..].starts_with(&[0xE2, 0x80, 0xA9]) {
                (vec![0x2029], 3)
            } else if bytes[j..].starts_with(&[0xC2, 0x85]) {
                (vec![0x0085], 2)
            } else if bytes[j..].starts_with(&[0xF0, 0x9F, 0x98, 0x80]) {
                (vec![0xD83D, 0xDE00], 4)
            } else if b == 0x80 {
                (vec![0xDC00], 1)
            } else if b == 0xC3 {
                (vec![0xD800], 1)
            } else if b == 0xFF {
                (vec![0xDFFF], 1)
            } else {
                (vec![0xD83D], 2)
            };
            for u in units {
                out.extend_from_slice(&u.to_le_bytes());
            }
            j += adv;
        }
        bytes = out;
    }
    Case { prop: "C18".into(), gen: "T-byte-tokens".into(), bytes, trap: trap.into(), fault_free: false, enc: "raw".into(), ..Case::default() }
}

/// Fourth list: a BOM pattern / valid multi-byte character / malformed byte in the MIDDLE of an
/// otherwise ASCII UTF-8 stream, behind prefixes whose lengths sit on and around 64-byte and
/// 4 KiB block boundaries.
pub const MID_PREFIX: [usize; 15] = [0, 1, 2, 3, 63, 64, 65, 127, 128, 129, 191, 192, 4095, 4096, 4097];
pub const MID_INSERT: [&[u8]; 6] = [&[0xEF, 0xBB, 0xBF], &[0xFF, 0xFE], &[0xFE, 0xFF], &[0xEF, 0xBF, 0xBD], &[0xE4, 0xB8, 0xAD], &[0x80]];
pub fn midstream_count() -> u64 {
    (MID_PREFIX.len() * MID_INSERT.len() * 2 * 4) as u64
}
fn midstream_case(k: u64) -> Case {
    let trap = TRAPS[(k % 4) as usize];
    let k = k / 4;
    let with_tail = k % 2 == 1;
    let k = k / 2;
    let ins = MID_INSERT[(k % MID_INSERT.len() as u64) as usize];
    let pre = MID_PREFIX[((k / MID_INSERT.len() as u64) % MID_PREFIX.len() as u64) as usize];
    let mut bytes = Vec::with_capacity(pre + 16);
    for i in 0..pre {
        bytes.push(match i {
            0 => b'k',
            1 => b':',
            2 => b' ',
            _ => b'a' + (i % 26) as u8,
        });
    }
    bytes.extend_from_slice(ins);
    if with_tail {
        bytes.extend_from_slice(b"b c\n");
    }
    Case { prop: "C18".into(), gen: "M-midstream".into(), bytes, trap: trap.into(), fault_free: false, enc: "raw".into(), ..Case::default() }
}

/// Fifth enumeration: streams made of blank-like bytes only (every ASCII "white space" by some
/// definition, NUL, DEL, ESC) with at most one letter: what counts as an empty stream.
pub const BLANKISH: [u8; 10] = [0x20, 0x09, 0x0A, 0x0D, 0x0C, 0x0B, 0x1B, 0x7F, 0x00, 0x41];
pub fn blankish_count() -> u64 {
    (1..=4u32).map(|k| 10u64.pow(k)).sum::<u64>() * 4 * 2
}
fn blankish_case(k: u64) -> Case {
    let trap = TRAPS[(k % 4) as usize];
    let k = k / 4;
    let utf16 = k % 2 == 1;
    let mut i = k / 2;
    let mut len = 1usize;
    loop {
        let n = 10u64.pow(len as u32);
        if i < n {
            break;
        }
        i -= n;
        len += 1;
    }
    let mut bytes = Vec::new();
    for _ in 0..len {
        let b = BLANKISH[(i % 10) as usize];
        bytes.push(b);
        if utf16 {
            bytes.push(0);
        }
        i /= 10;
    }
    Case { prop: "C18".into(), gen: "W-blankish".into(), bytes, trap: trap.into(), fault_free: false, enc: "raw".into(), ..Case::default() }
}

pub fn exhaustive_count(l: usize) -> u64 {
    small_count(l) + shapes_count() + byte_token_count() + blankish_count() + midstream_count() + ztail_count()
}

fn small_bytes(mut i: u64) -> Vec<u8> {
    let mut len = 0usize;
    loop {
        let n = 10u64.pow(len as u32);
        if i < n {
            break;
        }
        i -= n;
        len += 1;
    }
    let mut v = Vec::with_capacity(len);
    for _ in 0..len {
        v.push(SMALL_ALPHABET[(i % 10) as usize]);
        i /= 10;
    }
    v
}

pub fn encode(text: &str, enc: &str, bom: bool) -> Vec<u8> {
    let mut out = Vec::new();
    match enc {
        "utf-16le" => {
            if bom {
                out.extend_from_slice(&[0xFF, 0xFE]);
            }
            for u in text.encode_utf16() {
                out.extend_from_slice(&u.to_le_bytes());
            }
        }
        "utf-16be" => {
            if bom {
                out.extend_from_slice(&[0xFE, 0xFF]);
            }
            for u in text.encode_utf16() {
                out.extend_from_slice(&u.to_be_bytes());
            }
        }
        _ => {
            if bom {
                out.extend_from_slice(&[0xEF, 0xBB, 0xBF]);
            }
            out.extend_from_slice(text.as_bytes());
        }
    }
    out
}

pub fn generate(run_seed: u64, corpus: &Corpus, sw: &Swarm, i: u64, exhaustive: u64) -> Case {
    if i < exhaustive && i >= exhaustive - ztail_count() {
        return ztail_case(i - (exhaustive - ztail_count()));
    }
    if i < exhaustive && i >= exhaustive - ztail_count() - midstream_count() {
        return midstream_case(i - (exhaustive - ztail_count() - midstream_count()));
    }
    if i < exhaustive && i >= exhaustive - ztail_count() - midstream_count() - blankish_count() {
        return blankish_case(i - (exhaustive - ztail_count() - midstream_count() - blankish_count()));
    }
    if i < exhaustive && i >= exhaustive - ztail_count() - midstream_count() - blankish_count() - byte_token_count() {
        return byte_token_case(i - (exhaustive - ztail_count() - midstream_count() - blankish_count() - byte_token_count()));
    }
    if i < exhaustive && i >= exhaustive - ztail_count() - midstream_count() - blankish_count() - byte_token_count() - shapes_count() {
        let k = i - (exhaustive - ztail_count() - midstream_count() - blankish_count() - byte_token_count() - shapes_count());
        return Case {
            prop: "C18".into(),
            gen: "U-utf8-shapes".into(),
            bytes: shape_bytes(k / 4),
            trap: TRAPS[(k % 4) as usize].into(),
            fault_free: false,
            enc: "raw".into(),
            ..Case::default()
        };
    }
    if i < exhaustive {
        return Case {
            prop: "C18".into(),
            gen: "B-exhaustive".into(),
            bytes: small_bytes(i / 4),
            trap: TRAPS[(i % 4) as usize].into(),
            fault_free: false,
            enc: "raw".into(),
            ..Case::default()
        };
    }
    let mut g = Gen::new(run_seed, corpus, sw);
    let mut r = SplitMix64::new(run_seed ^ 0xC18C_18C1);
    let (gname, text) = decoder_text(&mut g);
    let enc = *r.pick(&ENCS);
    let bom = r.chance(1, 2);
    let trap = *r.pick(&TRAPS);
    let fault_free = r.chance(1, 2);
    let mut case = Case {
        prop: "C18".into(),
        gen: gname.into(),
        text: text.clone(),
        enc: enc.into(),
        bom,
        trap: trap.into(),
        fault_free,
        ..Case::default()
    };
    case.bytes = encode(&text, enc, bom);
    if fault_free {
        return case;
    }
    case.text.clear();
    if r.chance(1, 8) {
        // arbitrary bytes
        let n = r.usize(25);
        case.bytes = (0..n)
            .map(|_| if r.chance(2, 3) { *r.pick(&SMALL_ALPHABET) } else { r.below(256) as u8 })
            .collect();
        case.gen = "D-randombytes".into();
        case.enc = "raw".into();
        case.faults.push("arbitrary-bytes".into());
    } else {
        let nf = 1 + r.usize(2);
        for _ in 0..nf {
            inject_byte_fault(&mut r, &mut case, corpus, sw);
        }
    }
    if r.chance(1, 6) {
        case.faults.push("reader:hard-error".into());
    }
    if r.chance(1, 6) {
        case.faults.push("reader:early-eof".into());
    }
    case
}

/// A fault position: uniform, or biased to the first bytes (BOM / detection) or the last ones.
fn fault_pos(r: &mut SplitMix64, n: usize) -> usize {
    if n == 0 {
        return 0;
    }
    match r.below(6) {
        0 | 1 => r.usize(n.min(5)),
        2 => n - 1 - r.usize(n.min(4)),
        _ => r.usize(n),
    }
}

fn inject_byte_fault(r: &mut SplitMix64, case: &mut Case, corpus: &Corpus, sw: &Swarm) {
    let n = case.bytes.len();
    let bom_len = if !case.bom {
        0
    } else if case.enc == "utf-8" {
        3
    } else {
        2
    };
    match r.below(8) {
        0 if n > 0 => {
            // torn write: truncate at a random byte
            let k = fault_pos(r, n);
            case.bytes.truncate(k);
            case.faults.push(format!("truncate@{k}"));
            probe(Probe::ByteTruncate);
        }
        1 if n > 0 => {
            let k = fault_pos(r, n);
            let bit = r.below(8) as u8;
            case.bytes[k] ^= 1 << bit;
            case.faults.push(format!("flip@{k}.{bit}"));
            probe(Probe::ByteFlip);
        }
        2 if n > 0 => {
            let k = fault_pos(r, n);
            let b = if r.chance(1, 2) { *r.pick(&SMALL_ALPHABET) } else { r.below(256) as u8 };
            case.bytes[k] = b;
            case.faults.push(format!("overwrite@{k}={b:02x}"));
            probe(Probe::ByteOverwrite);
        }
        3 => {
            let k = fault_pos(r, n + 1);
            let b = if r.chance(1, 2) { *r.pick(&SMALL_ALPHABET) } else { r.below(256) as u8 };
            case.bytes.insert(k, b);
            case.faults.push(format!("insert@{k}={b:02x}"));
            probe(Probe::ByteInsert);
        }
        4 if n > 0 => {
            let k = fault_pos(r, n);
            case.bytes.remove(k);
            case.faults.push(format!("delete@{k}"));
            probe(Probe::ByteDelete);
        }
        5 if bom_len > 0 && n >= bom_len => {
            case.bytes.drain(0..bom_len);
            case.bom = false;
            case.faults.push("bom-dropped".into());
            probe(Probe::BomDrop);
        }
        6 if bom_len > 0 && n >= bom_len => {
            let b: Vec<u8> = case.bytes[..bom_len].to_vec();
            for (k, x) in b.into_iter().enumerate() {
                case.bytes.insert(k, x);
            }
            case.faults.push("bom-duplicated".into());
            probe(Probe::BomDup);
        }
        _ => {
            // splice in a run from another encoding
            let mut g = Gen::new(r.next_u64(), corpus, sw);
            let (_, t) = decoder_text(&mut g);
            let other = *r.pick(&ENCS);
            let mut run = encode(&t, other, r.chance(1, 4));
            run.truncate(1 + r.usize(24));
            let k = r.usize(n + 1);
            for (j, x) in run.iter().enumerate() {
                case.bytes.insert(k + j, *x);
            }
            case.faults.push(format!("splice@{k}:{other}x{}", run.len()));
            probe(Probe::EncSplice);
        }
    }
}

// ---------------------------------------------------------------------------------- S4 reader

#[derive(Default)]
struct ReaderLog {
    delivered: Vec<u8>,
    calls: u64,
    hard_error: bool,
    early_eof: bool,
    fp: Fp,
}

thread_local! {
    static READER_LOG: RefCell<ReaderLog> = RefCell::new(ReaderLog::default());
    static TRAP_LOG: RefCell<Vec<TrapCall>> = const { RefCell::new(Vec::new()) };
    /// How the simulated callback decides in this run (drawn at its first call): per call, or
    /// the same answer every time (so that long malformed runs are carried through).
    static TRAP_POLICY: std::cell::Cell<u8> = const { std::cell::Cell::new(u8::MAX) };
}

#[derive(Clone, Debug)]
struct TrapCall {
    mal_len: u8,
    after: u8,
    input_len: usize,
    head: Vec<u8>,
    decision: u8,
    output_len_before: usize,
}

thread_local! {
    /// Re-entrant use left in this run, and whether a nested decode gave a wrong result.
    static NESTED_LEFT: std::cell::Cell<u8> = const { std::cell::Cell::new(0) };
    static NESTED_WRONG: RefCell<Option<String>> = const { RefCell::new(None) };
}

/// The environment on the far side of a seam (the reader, the trap callback) uses the library
/// itself: another decoder, on this thread, while the outer `decode()` is on the stack. A decoder
/// has no state outside itself, so this must work; a panic unwinds through the outer call.
fn nested_decode(from: Probe) {
    if NESTED_LEFT.with(|c| c.get()) == 0 {
        return;
    }
    NESTED_LEFT.with(|c| c.set(c.get() - 1));
    probe(from);
    let bytes: &[u8] = b"\xff\xfea\x00:\x00 \x00\x3d\xd8b\x00";
    let mut dec = YamlDecoder::read(bytes);
    let r = dec.encoding_trap(YAMLDecodingTrap::Replace).decode();
    let want = Yaml::load_from_str("a: \u{FFFD}b");
    let ok = match (&r, &want) {
        (Ok(a), Ok(b)) => a == b,
        _ => false,
    };
    if !ok {
        NESTED_WRONG.with(|w| *w.borrow_mut() = Some(format!("nested decode of a fixed UTF-16LE stream gave {r:?}")));
    }
}

pub struct SimReader {
    data: Vec<u8>,
    pos: usize,
    eintr_run: u32,
    allow_hard: bool,
    allow_early: bool,
    done: bool,
}

impl SimReader {
    fn new(data: Vec<u8>, allow_hard: bool, allow_early: bool) -> Self {
        READER_LOG.with(|l| *l.borrow_mut() = ReaderLog::default());
        NESTED_LEFT.with(|c| c.set(2));
        NESTED_WRONG.with(|w| *w.borrow_mut() = None);
        SimReader { data, pos: 0, eintr_run: 0, allow_hard, allow_early, done: false }
    }
}

impl Read for SimReader {
    fn read(&mut self, buf: &mut [u8]) -> io::Result<usize> {
        clock::tick();
        READER_LOG.with(|l| l.borrow_mut().calls += 1);
        if self.done || buf.is_empty() {
            return Ok(0);
        }
        let mode = clock::choose(8);
        let log_fp = |a: u64, b: u64| READER_LOG.with(|l| l.borrow_mut().fp.mix(a * 1000 + b));
        match mode {
            5 if self.eintr_run < 3 => {
                self.eintr_run += 1;
                probe(Probe::ReadEintr);
                log_fp(5, 0);
                return Err(io::Error::new(io::ErrorKind::Interrupted, "simulated EINTR"));
            }
            6 if self.allow_hard => {
                self.allow_hard = false;
                self.done = true;
                probe(Probe::ReadHardError);
                READER_LOG.with(|l| l.borrow_mut().hard_error = true);
                log_fp(6, 0);
                let kind = match clock::choose(5) {
                    0 => io::ErrorKind::Other,
                    1 => io::ErrorKind::WouldBlock,
                    2 => io::ErrorKind::UnexpectedEof,
                    3 => io::ErrorKind::BrokenPipe,
                    _ => io::ErrorKind::InvalidData,
                };
                return Err(io::Error::new(kind, "simulated I/O error"));
            }
            4 => nested_decode(Probe::NestedDecodeInRead),
            7 if self.allow_early && self.pos < self.data.len() => {
                self.done = true;
                probe(Probe::ReadEarlyEof);
                READER_LOG.with(|l| l.borrow_mut().early_eof = true);
                log_fp(7, 0);
                return Ok(0);
            }
            _ => {}
        }
        self.eintr_run = 0;
        let remaining = self.data.len() - self.pos;
        if remaining == 0 {
            // end of the stored bytes reported: the source stays at EOF from now on (a later call,
            // e.g. a second decode(), sees an empty stream, not a late fault)
            self.done = true;
            return Ok(0);
        }
        let want = match clock::choose(6) {
            0 => remaining,
            1 => 64,
            2 => 7,
            3 => 3,
            4 => 2,
            _ => 1,
        };
        let k = want.min(remaining).min(buf.len());
        if k < remaining.min(buf.len()) {
            probe(Probe::ReadShort);
        }
        buf[..k].copy_from_slice(&self.data[self.pos..self.pos + k]);
        self.pos += k;
        READER_LOG.with(|l| {
            let mut l = l.borrow_mut();
            l.delivered.extend_from_slice(&buf[..k]);
            l.fp.mix(k as u64);
        });
        Ok(k)
    }
}

// ---------------------------------------------------------------------------------- S5 trap

fn sim_trap(mal_len: u8, after: u8, input: &[u8], output: &mut String) -> ControlFlow<Cow<'static, str>> {
    clock::tick();
    probe(Probe::TrapCalled);
    if TRAP_POLICY.with(std::cell::Cell::get) == u8::MAX {
        TRAP_POLICY.with(|c| c.set(clock::choose(8) as u8));
    }
    let d = match TRAP_POLICY.with(std::cell::Cell::get) {
        4 => 0,
        5 => 9,
        6 => 8,
        7 => 5,
        _ => clock::choose(10) as u8,
    };
    TRAP_LOG.with(|l| {
        l.borrow_mut().push(TrapCall {
            mal_len,
            after,
            input_len: input.len(),
            head: input[..(mal_len as usize).min(input.len())].to_vec(),
            decision: d,
            output_len_before: output.len(),
        });
    });
    match d {
        0 | 2 => {
            if d == 2 {
                nested_decode(Probe::NestedDecodeInTrap);
            }
            probe(Probe::TrapContinueNothing);
            ControlFlow::Continue(())
        }
        // the callback may modify the output as it likes: it takes text back
        1 => {
            probe(Probe::TrapShrinksOutput);
            output.pop();
            ControlFlow::Continue(())
        }
        4 => {
            probe(Probe::TrapShrinksOutput);
            output.clear();
            ControlFlow::Continue(())
        }
        // ... or gives the buffer's memory back (capacity is the callback's to change too)
        8 => {
            probe(Probe::TrapShrinksOutput);
            *output = String::new();
            ControlFlow::Continue(())
        }
        9 => {
            probe(Probe::TrapShrinksOutput);
            output.shrink_to_fit();
            ControlFlow::Continue(())
        }
        3 => {
            probe(Probe::TrapContinueFffd);
            output.push('\u{FFFD}');
            ControlFlow::Continue(())
        }
        5 => {
            probe(Probe::TrapContinueBig);
            output.push_str(BIG);
            ControlFlow::Continue(())
        }
        6 => {
            probe(Probe::TrapBreakEmpty);
            ControlFlow::Break(Cow::Borrowed(""))
        }
        _ => {
            probe(Probe::TrapBreakMsg);
            ControlFlow::Break(Cow::Borrowed("trap says no"))
        }
    }
}

// ------------------------------------------------------------------------- reference decoder

#[derive(Debug, Clone, PartialEq)]
enum Seg {
    Text(String),
    /// (offset in the whole buffer, the malformed bytes)
    Bad(usize, Vec<u8>),
}

/// Encoding detection as YAML 1.2 §5.2 restricted to UTF-8 / UTF-16: BOM first, otherwise the
/// NUL pattern of an ASCII first character. Returns (encoding, bytes to skip).
fn ref_detect(b: &[u8]) -> (&'static str, usize) {
    if b.len() >= 3 && b[..3] == [0xEF, 0xBB, 0xBF] {
        return ("utf-8", 3);
    }
    if b.len() >= 2 && b[..2] == [0xFF, 0xFE] {
        return ("utf-16le", 2);
    }
    if b.len() >= 2 && b[..2] == [0xFE, 0xFF] {
        return ("utf-16be", 2);
    }
    if b.len() >= 2 && b[0] != b[1] {
        if b[0] == 0 {
            return ("utf-16be", 0);
        }
        if b[1] == 0 {
            return ("utf-16le", 0);
        }
    }
    ("utf-8", 0)
}

fn ref_segments(b: &[u8]) -> Vec<Seg> {
    let (enc, skip) = ref_detect(b);
    let mut segs = Vec::new();
    let mut cur = String::new();
    if enc == "utf-8" {
        let mut pos = skip;
        while pos < b.len() {
            match std::str::from_utf8(&b[pos..]) {
                Ok(s) => {
                    cur.push_str(s);
                    pos = b.len();
                }
                Err(e) => {
                    let v = e.valid_up_to();
                    cur.push_str(std::str::from_utf8(&b[pos..pos + v]).unwrap_or(""));
                    let bad_len = e.error_len().unwrap_or(b.len() - pos - v);
                    if !cur.is_empty() {
                        segs.push(Seg::Text(std::mem::take(&mut cur)));
                    }
                    segs.push(Seg::Bad(pos + v, b[pos + v..pos + v + bad_len].to_vec()));
                    pos += v + bad_len;
                }
            }
        }
    } else {
        let be = enc == "utf-16be";
        let body = &b[skip..];
        let n_units = body.len() / 2;
        let unit = |k: usize| -> u16 {
            if be {
                u16::from_be_bytes([body[2 * k], body[2 * k + 1]])
            } else {
                u16::from_le_bytes([body[2 * k], body[2 * k + 1]])
            }
        };
        let mut k = 0;
        while k < n_units {
            let u = unit(k);
            if (0xD800..0xDC00).contains(&u) {
                if k + 1 < n_units && (0xDC00..0xE000).contains(&unit(k + 1)) {
                    let c = 0x10000 + ((u32::from(u) - 0xD800) << 10) + (u32::from(unit(k + 1)) - 0xDC00);
                    cur.push(char::from_u32(c).unwrap_or('\u{FFFD}'));
                    k += 2;
                    continue;
                }
                if !cur.is_empty() {
                    segs.push(Seg::Text(std::mem::take(&mut cur)));
                }
                if k + 1 == n_units && body.len() % 2 == 1 {
                    // WHATWG UTF-16 decoder: at end of input a pending lead surrogate *and* a
                    // pending lead byte are reported together as one error.
                    segs.push(Seg::Bad(skip + 2 * k, body[2 * k..].to_vec()));
                    return segs;
                }
                segs.push(Seg::Bad(skip + 2 * k, body[2 * k..2 * k + 2].to_vec()));
                k += 1;
            } else if (0xDC00..0xE000).contains(&u) {
                if !cur.is_empty() {
                    segs.push(Seg::Text(std::mem::take(&mut cur)));
                }
                segs.push(Seg::Bad(skip + 2 * k, body[2 * k..2 * k + 2].to_vec()));
                k += 1;
            } else {
                cur.push(char::from_u32(u32::from(u)).unwrap_or('\u{FFFD}'));
                k += 1;
            }
        }
        if body.len() % 2 == 1 {
            if !cur.is_empty() {
                segs.push(Seg::Text(std::mem::take(&mut cur)));
            }
            segs.push(Seg::Bad(skip + body.len() - 1, vec![body[body.len() - 1]]));
        }
    }
    if !cur.is_empty() {
        segs.push(Seg::Text(cur));
    }
    segs
}

#[derive(Debug, Clone, PartialEq)]
enum Expect {
    Text(String),
    Decode(String),
}

fn strict_msg(off: usize, bad: &[u8]) -> String {
    format!("Invalid character sequence at {off}: {bad:?}")
}

/// Expected decoded text (or decode error) for the delivered bytes under `trap`, given the
/// decisions the simulated callback actually took (in order). Also returns the number of
/// callback invocations the reference expects.
fn ref_expect(b: &[u8], trap: &str, calls: &[TrapCall]) -> (Expect, usize, Option<String>) {
    let mut out = String::new();
    let mut n_calls = 0usize;
    let mut arg_mismatch: Option<String> = None;
    for seg in ref_segments(b) {
        match seg {
            Seg::Text(s) => out.push_str(&s),
            Seg::Bad(off, bad) => match trap {
                "strict" => return (Expect::Decode(strict_msg(off, &bad)), 0, None),
                "ignore" => {}
                "replace" => out.push('\u{FFFD}'),
                _ => {
                    let Some(c) = calls.get(n_calls) else {
                        return (Expect::Text(out), n_calls + 1, Some(format!("callback not invoked for malformation #{n_calls} at offset {off}")));
                    };
                    n_calls += 1;
                    if arg_mismatch.is_none() {
                        if c.head != bad {
                            arg_mismatch = Some(format!(
                                "callback #{} got malformed sequence {:?} (len {}), reference says {:?} at offset {off}",
                                n_calls - 1,
                                c.head,
                                c.mal_len,
                                bad
                            ));
                        } else if c.input_len != b.len() - off {
                            arg_mismatch = Some(format!(
                                "callback #{} got input_at_malformation of {} bytes, reference says {} (offset {off} of {})",
                                n_calls - 1,
                                c.input_len,
                                b.len() - off,
                                b.len()
                            ));
                        } else if c.output_len_before != out.len() {
                            arg_mismatch = Some(format!(
                                "callback #{} saw {} bytes of output, reference has {}",
                                n_calls - 1,
                                c.output_len_before,
                                out.len()
                            ));
                        }
                    }
                    match c.decision {
                        0 | 2 => {}
                        1 => {
                            out.pop();
                        }
                        4 | 8 => out.clear(),
                        9 => {}
                        3 => out.push('\u{FFFD}'),
                        5 => out.push_str(BIG),
                        6 => return (Expect::Decode(strict_msg(off, &bad)), n_calls, arg_mismatch),
                        _ => return (Expect::Decode("trap says no".into()), n_calls, arg_mismatch),
                    }
                }
            },
        }
    }
    (Expect::Text(out), n_calls, arg_mismatch)
}

// ----------------------------------------------------------------------------------- executor

#[derive(Debug, Clone, PartialEq)]
enum Res {
    /// the decoder kept state between two decode() calls
    Reuse(String),
    Docs(String),
    Scan(String),
    Decode(String),
    Io(String),
}

impl Res {
    fn kind(&self) -> &'static str {
        match self {
            Res::Reuse(_) => "reuse",
            Res::Docs(_) => "Ok",
            Res::Scan(_) => "Err(Scan)",
            Res::Decode(_) => "Err(Decode)",
            Res::Io(_) => "Err(IO)",
        }
    }
    fn short(&self) -> String {
        let s = match self {
            Res::Docs(s) | Res::Scan(s) | Res::Decode(s) | Res::Io(s) | Res::Reuse(s) => s,
        };
        let t: String = s.chars().take(200).collect();
        format!("{}: {t}", self.kind())
    }
}

/// Equality of results, except that the wording of a decode error is the library's business:
/// the property asks for *a decode error*. What must hold of the message: a message the callback
/// supplied is carried, and if the message starts its numbers with a byte offset (as the pinned
/// wording does) that offset is the reference decoder's.
fn results_agree(got: &Res, want: &Res) -> bool {
    match (got, want) {
        (Res::Decode(g), Res::Decode(w)) => {
            if w == "trap says no" {
                return g.contains(w.as_str());
            }
            let first_int = |s: &str| -> Option<u64> {
                let d: String = s.chars().skip_while(|c| !c.is_ascii_digit()).take_while(char::is_ascii_digit).collect();
                d.parse().ok()
            };
            match (first_int(g), first_int(w)) {
                (Some(a), Some(b)) => a == b,
                _ => true,
            }
        }
        _ => got == want,
    }
}

fn load_direct(text: &str) -> Res {
    match Yaml::load_from_str(text) {
        Ok(d) => Res::Docs(format!("{d:?}")),
        Err(e) => Res::Scan(e.to_string()),
    }
}

pub fn execute(case: &Case, record_seed: Option<u64>) -> Outcome {
    let bytes: Vec<u8> = if case.fault_free { encode(&case.text, &case.enc, case.bom) } else { case.bytes.clone() };
    let len = bytes.len() as u64;
    let tape = match record_seed {
        Some(s) => Tape::record(s),
        None => Tape::replay(case.tape.clone()),
    };
    // reader budget: std's read_to_end makes O(len/32 + k) calls at worst with 1-byte reads: len + 64.
    clock::begin(4 * len + 256, tape);
    // The parser's internal work clock is C01's instrument; here the decoded text can be far
    // longer than the stored bytes (a callback may push 64 bytes per malformation), so it is off.
    saphyr_parser::verif_hooks::set_work_budget(u64::MAX);
    TRAP_LOG.with(|l| l.borrow_mut().clear());
    TRAP_POLICY.with(|c| c.set(u8::MAX));
    let decode_budget = 2 * len + 128;
    saphyr::verif_hooks::set_decode_budget(decode_budget);
    let allow_hard = !case.fault_free && case.faults.iter().any(|f| f == "reader:hard-error");
    let allow_early = !case.fault_free && case.faults.iter().any(|f| f == "reader:early-eof");
    let trap = match case.trap.as_str() {
        "ignore" => YAMLDecodingTrap::Ignore,
        "replace" => YAMLDecodingTrap::Replace,
        "call" => YAMLDecodingTrap::Call(sim_trap),
        _ => YAMLDecodingTrap::Strict,
    };
    crate::alloc::tl_start();
    let g = guarded(|| {
        let reader = SimReader::new(bytes.clone(), allow_hard, allow_early);
        let mut dec = YamlDecoder::read(reader);
        // call history on the builder: the trap may be configured several times, the last
        // setting is the one that counts
        for _ in 0..clock::choose(3) {
            dec.encoding_trap(match clock::choose(4) {
                0 => YAMLDecodingTrap::Ignore,
                1 => YAMLDecodingTrap::Replace,
                2 => YAMLDecodingTrap::Call(sim_trap),
                _ => YAMLDecodingTrap::Strict,
            });
        }
        dec.encoding_trap(trap);
        let first = match dec.decode() {
            Ok(docs) => Res::Docs(format!("{docs:?}")),
            Err(e) => {
                let dbg = format!("{e:?}");
                if dbg.starts_with("IO(") {
                    Res::Io(e.to_string())
                } else if dbg.starts_with("Scan(") {
                    Res::Scan(e.to_string())
                } else {
                    Res::Decode(e.to_string())
                }
            }
        };
        // Call history on the decoder: the source is exhausted now (the simulated reader keeps
        // returning Ok(0)), so a second decode() must see an empty stream, not stale state.
        if clock::choose(4) == 1 {
            let again = match dec.decode() {
                Ok(docs) => format!("Ok({docs:?})"),
                Err(e) => format!("Err({e})"),
            };
            if again != "Ok([])" {
                return Res::Reuse(format!("a second decode() on the exhausted source returned {}", again.chars().take(160).collect::<String>()));
            }
        }
        first
    });
    let (_, mem_peak) = crate::alloc::tl_stop();
    let decode_ticks = saphyr::verif_hooks::decode_ticks();
    saphyr::verif_hooks::set_decode_budget(u64::MAX);
    let ticks = clock::ticks() + decode_ticks;
    let (delivered, hard, early, reader_fp, reader_calls) = READER_LOG.with(|l| {
        let l = l.borrow();
        (l.delivered.clone(), l.hard_error, l.early_eof, l.fp.0, l.calls)
    });
    let calls: Vec<TrapCall> = TRAP_LOG.with(|l| l.borrow().clone());
    if std::env::var_os("SIM_DEBUG").is_some() {
        eprintln!("trap calls: {calls:?}");
    }
    if decode_ticks > 1 {
        probe(Probe::DecodeMultiIter);
    }
    let mut out = Outcome { n_chars: len, ticks, sub_runs: 1, events: decode_ticks, ..Outcome::default() };
    let cfg = if case.fault_free { "fault-free" } else { "fault-injecting" };
    let mut fp = Fp::default();
    fp.mix(reader_fp);
    fp.mix(decode_ticks);
    for c in &calls {
        fp.mix(u64::from(c.decision) + 16 * u64::from(c.mal_len) + 256 * u64::from(c.after));
    }
    for b in &bytes {
        fp.mix(u64::from(*b));
    }
    fp.mix_str(&case.trap);

    let violation: Option<(String, String)> = match g {
        Guarded::Panic(m) => {
            let loc = crate::trace::last_panic_loc().map(|l| format!(" at {l}")).unwrap_or_default();
            Some((format!("PANIC({})", crate::trace::first_line(&m)), format!("decode() panicked: {m}{loc}")))
        }
        Guarded::Hang(t) => Some((
            "HANG(step-budget)".into(),
            format!(
                "decode() exceeded its step budget: {t} ticks ({} decode-loop iterations for {len} bytes, budget {decode_budget}; {reader_calls} reader calls)",
                saphyr::verif_hooks::decode_ticks().max(decode_ticks)
            ),
        )),
        Guarded::Ok(_) if NESTED_WRONG.with(|w| w.borrow().is_some()) => {
            Some(("WRONG-RESULT(nested-decode)".into(), NESTED_WRONG.with(|w| w.borrow_mut().take()).unwrap_or_default()))
        }
        Guarded::Ok(Res::Reuse(m)) => Some(("WRONG-RESULT(decoder-reuse)".into(), m)),
        Guarded::Ok(res) => {
            match &res {
                Res::Reuse(_) => {}
                Res::Docs(_) => probe(Probe::DecodeOk),
                Res::Scan(_) => probe(Probe::DecodeErrScan),
                Res::Decode(_) => probe(Probe::DecodeErrDecode),
                Res::Io(_) => probe(Probe::DecodeErrIo),
            }
            fp.mix_str(res.kind());
            out.summary = format!("{cfg}: {} bytes, trap {}, {} reader calls, {} callback calls, {} loop iterations -> {}", len, case.trap, reader_calls, calls.len(), decode_ticks, res.kind());
            if case.fault_free {
                // Oracle: same documents as loading the text directly, whatever the reader did;
                // the callback must not even be called.
                let want = load_direct(&case.text);
                if !calls.is_empty() {
                    Some(("WRONG-RESULT(callback)".into(), format!("callback invoked {} times on a well-formed {} stream", calls.len(), case.enc)))
                } else if res != want {
                    Some((
                        "WRONG-RESULT(fault-free)".into(),
                        format!("{} bom={} trap={}: decode() gives {}, loading the text directly gives {}", case.enc, case.bom, case.trap, res.short(), want.short()),
                    ))
                } else {
                    None
                }
            } else if hard {
                if matches!(res, Res::Io(_)) {
                    None
                } else {
                    Some(("WRONG-RESULT(io-error-swallowed)".into(), format!("a hard I/O error was injected after {} bytes but decode() returned {}", delivered.len(), res.short())))
                }
            } else if matches!(res, Res::Io(_)) {
                Some(("WRONG-RESULT(io-error-invented)".into(), format!("no hard I/O error was injected but decode() returned {}", res.short())))
            } else {
                let _ = early;
                let (exp, n_calls, arg_mismatch) = ref_expect(&delivered, &case.trap, &calls);
                let want = match &exp {
                    Expect::Text(t) => load_direct(t),
                    Expect::Decode(m) => Res::Decode(m.clone()),
                };
                if let Some(m) = arg_mismatch {
                    Some(("WRONG-RESULT(callback-args)".into(), m))
                } else if n_calls != calls.len() {
                    Some((
                        "WRONG-RESULT(callback-count)".into(),
                        format!("callback invoked {} times, reference decoder expects {n_calls}", calls.len()),
                    ))
                } else if !results_agree(&res, &want) {
                    Some((
                        "WRONG-RESULT(fault-injecting)".into(),
                        format!(
                            "trap={} over {} delivered bytes: decode() gives {}, reference decoder + load_from_str gives {}",
                            case.trap,
                            delivered.len(),
                            res.short(),
                            want.short()
                        ),
                    ))
                } else {
                    None
                }
            }
        }
    };
    if out.summary.is_empty() {
        out.summary = format!("{cfg}: {len} bytes, trap {} -> violation", case.trap);
    }
    // the memory clock: decoded text, loaded documents and their rendering all grow like the
    // stored bytes (a callback may push 64 bytes per malformed byte)
    out.mem_peak = mem_peak;
    out.mem_budget = 65_536 + (len + 16) * 8192;
    out.violation = violation;
    if out.violation.is_none() && mem_peak > out.mem_budget {
        out.violation = Some((
            "MEMORY(peak-budget)".into(),
            format!("{mem_peak} bytes live at the peak while decoding {len} stored bytes with trap {}, budget {}", case.trap, out.mem_budget),
        ));
    }
    out.fingerprint = fp.0;
    out.nontrivial = len >= 4 || clock::run_faults() >= 1;
    out.tape = clock::end().rec;
    out
}
