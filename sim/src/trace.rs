//! Observations: owned events, run terminations, panic classification, and the glue that puts a
//! real `Parser` on top of any simulated environment.

use crate::clock::{self, BudgetExceeded, ContractViolation};
use crate::inputs::{InputKind, Metered, SimRing, SimRle, SimSlice, SimSource, Ticking};
use saphyr_parser::{BufferedInput, Event, Input, Parser, ScanError, Span, StrInput};
use std::borrow::Cow;
use std::cell::RefCell;
use std::panic::{catch_unwind, AssertUnwindSafe};
use std::rc::Rc;

pub type OwnedEvent = Event<'static>;

pub fn own(ev: Event<'_>) -> OwnedEvent {
    match ev {
        Event::Nothing => Event::Nothing,
        Event::StreamStart => Event::StreamStart,
        Event::StreamEnd => Event::StreamEnd,
        Event::DocumentStart(b) => Event::DocumentStart(b),
        Event::DocumentEnd => Event::DocumentEnd,
        Event::Alias(i) => Event::Alias(i),
        Event::Scalar(s, st, a, t) => Event::Scalar(Cow::Owned(s.into_owned()), st, a, t),
        Event::SequenceStart(a, t) => Event::SequenceStart(a, t),
        Event::SequenceEnd => Event::SequenceEnd,
        Event::MappingStart(a, t) => Event::MappingStart(a, t),
        Event::MappingEnd => Event::MappingEnd,
    }
}

pub fn ev_kind(ev: &Event<'_>) -> u64 {
    match ev {
        Event::Nothing => 0,
        Event::StreamStart => 1,
        Event::StreamEnd => 2,
        Event::DocumentStart(false) => 3,
        Event::DocumentStart(true) => 4,
        Event::DocumentEnd => 5,
        Event::Alias(_) => 6,
        Event::Scalar(..) => 7,
        Event::SequenceStart(..) => 8,
        Event::SequenceEnd => 9,
        Event::MappingStart(..) => 10,
        Event::MappingEnd => 11,
    }
}

/// How an execution ended.
#[derive(Clone, Debug, PartialEq, Eq)]
pub enum End {
    /// `StreamEnd` was delivered (and, where applicable, the call returned `Ok`).
    Complete,
    /// Exactly one error was returned.
    Err(ScanError),
    /// The library unwound. The string is the panic message (without location).
    Panic(String),
    /// The step budget was exceeded.
    Hang(u64),
    /// The iterator returned `None` before `StreamEnd` or an error, or another protocol breach.
    Protocol(String),
}

impl End {
    pub fn class(&self) -> String {
        match self {
            End::Complete => "COMPLETE".into(),
            End::Err(_) => "ERR".into(),
            End::Panic(m) => format!("PANIC({})", first_line(m)),
            End::Hang(_) => "HANG(step-budget)".into(),
            End::Protocol(m) => format!("PROTOCOL({m})"),
        }
    }
    pub fn describe(&self) -> String {
        match self {
            End::Complete => "StreamEnd".into(),
            End::Err(e) => format!("Err({} @{}:{}:{})", e.info(), e.marker().index(), e.marker().line(), e.marker().col()),
            End::Panic(m) => format!("PANIC({m})"),
            End::Hang(t) => format!("HANG(step-budget, {t} ticks)"),
            End::Protocol(m) => format!("PROTOCOL({m})"),
        }
    }
    pub fn is_bad(&self) -> bool {
        matches!(self, End::Panic(_) | End::Hang(_) | End::Protocol(_))
    }
}

pub fn first_line(s: &str) -> String {
    let l = s.lines().next().unwrap_or("");
    let mut t: String = l.chars().take(160).collect();
    if t.len() < l.len() {
        t.push('…');
    }
    t
}

#[derive(Clone, Debug, PartialEq, Eq)]
pub struct Trace {
    pub evs: Vec<(OwnedEvent, Span)>,
    pub end: End,
}

// ------------------------------------------------------------------------------ panic capture

thread_local! {
    static LAST_PANIC_LOC: RefCell<Option<String>> = const { RefCell::new(None) };
    static IN_SIM: std::cell::Cell<bool> = const { std::cell::Cell::new(false) };
}

/// Install a process-wide panic hook that stays silent for panics raised inside a simulated run
/// (they are observations, not harness failures) and records their location.
pub fn install_panic_hook() {
    let default = std::panic::take_hook();
    std::panic::set_hook(Box::new(move |info| {
        if IN_SIM.with(std::cell::Cell::get) {
            let loc = info.location().map(|l| format!("{}:{}", l.file(), l.line()));
            LAST_PANIC_LOC.with(|c| *c.borrow_mut() = loc);
        } else {
            default(info);
        }
    }));
}

pub fn last_panic_loc() -> Option<String> {
    LAST_PANIC_LOC.with(|c| c.borrow().clone())
}

/// Outcome of a guarded call.
pub enum Guarded<T> {
    Ok(T),
    Panic(String),
    Hang(u64),
}

/// Run `f` with unwinding caught and classified.
pub fn guarded<T>(f: impl FnOnce() -> T) -> Guarded<T> {
    let was = IN_SIM.with(|c| c.replace(true));
    let r = catch_unwind(AssertUnwindSafe(f));
    IN_SIM.with(|c| c.set(was));
    match r {
        Ok(v) => Guarded::Ok(v),
        Err(p) => {
            clock::disarm();
            if let Some(b) = p.downcast_ref::<BudgetExceeded>() {
                Guarded::Hang(b.ticks)
            } else if let Some(b) = p.downcast_ref::<saphyr::verif_hooks::DecodeBudgetExceeded>() {
                Guarded::Hang(b.ticks)
            } else if let Some(b) = p.downcast_ref::<saphyr_parser::verif_hooks::WorkBudgetExceeded>() {
                Guarded::Hang(b.ticks)
            } else if let Some(c) = p.downcast_ref::<ContractViolation>() {
                Guarded::Panic(format!("input contract: {}", c.0))
            } else if let Some(s) = p.downcast_ref::<String>() {
                Guarded::Panic(s.clone())
            } else if let Some(s) = p.downcast_ref::<&'static str>() {
                Guarded::Panic((*s).to_string())
            } else {
                Guarded::Panic("<non-string panic payload>".into())
            }
        }
    }
}

// ------------------------------------------------------------------------------ environments

/// A text prepared for all environments: the `&str` (already truncated at `eof_at`, for the
/// slice-based back-ends) and the char vector (for the source-based ones, which see the early
/// EOF as the source ending).
pub struct Prepared {
    pub full: String,
    pub cut: String,
    pub chars: Rc<[char]>,
    pub eof_at: Option<usize>,
    pub n_chars: usize,
    /// `Parser::keep_tags` configuration of every parser built for this case.
    pub keep_tags: bool,
}

impl Prepared {
    pub fn new(text: &str, eof_at: Option<usize>, keep_tags: bool) -> Prepared {
        let chars: Vec<char> = text.chars().collect();
        let n = chars.len();
        let eof_at = eof_at.filter(|e| *e < n);
        let cut: String = match eof_at {
            Some(e) => chars[..e].iter().collect(),
            None => text.to_string(),
        };
        Prepared {
            full: text.to_string(),
            cut,
            chars: chars.into(),
            eof_at,
            n_chars: eof_at.unwrap_or(n),
            keep_tags,
        }
    }
}

pub trait ParserVisitor {
    type Out;
    fn visit<'a, I: Input>(self, p: Parser<'a, I>) -> Self::Out;
    /// Building the parser (library code: it may look at the source, e.g. its size hint) unwound.
    fn construct_failed(self, end: End) -> Self::Out;
}

/// Build a real `Parser` over the requested environment and hand it to the visitor.
pub fn with_parser<V: ParserVisitor>(kind: InputKind, prep: &Prepared, v: V) -> V::Out {
    macro_rules! build {
        ($e:expr) => {
            match guarded(|| $e) {
                Guarded::Ok(p) => v.visit(p),
                Guarded::Panic(m) => v.construct_failed(End::Panic(m)),
                Guarded::Hang(t) => v.construct_failed(End::Hang(t)),
            }
        };
    }
    match kind {
        InputKind::Str => {
            if prep.eof_at.is_some() {
                clock::probe(clock::Probe::SourceEofEarly);
            }
            build!(Parser::new(Ticking(StrInput::new(&prep.cut))).keep_tags(prep.keep_tags))
        }
        InputKind::Buffered => build!(Parser::new(Ticking(BufferedInput::new(SimSource::new(prep.chars.clone(), prep.eof_at)))).keep_tags(prep.keep_tags)),
        InputKind::BufferedBare => {
            build!(Parser::new_from_iter(SimSource::new(prep.chars.clone(), prep.eof_at)).keep_tags(prep.keep_tags))
        }
        InputKind::Ring(cap, pol) => {
            build!(Parser::new(SimRing::new(prep.chars.clone(), prep.eof_at, cap, pol)).keep_tags(prep.keep_tags))
        }
        InputKind::MeteredStr => {
            if prep.eof_at.is_some() {
                clock::probe(clock::Probe::SourceEofEarly);
            }
            build!(Parser::new(Metered::new(StrInput::new(&prep.cut))).keep_tags(prep.keep_tags))
        }
        InputKind::Rle => build!(Parser::new(SimRle::from_notation(&prep.full)).keep_tags(prep.keep_tags)),
        InputKind::Slice(cap) => {
            build!(Parser::new(SimSlice::new(prep.chars.clone(), prep.eof_at, cap)).keep_tags(prep.keep_tags))
        }
    }
}

/// Plain iteration to exhaustion, the reference way of consuming a parser.
pub struct IterateAll {
    pub max_events: usize,
}

impl ParserVisitor for IterateAll {
    type Out = Trace;
    fn construct_failed(self, end: End) -> Trace {
        Trace { evs: Vec::new(), end }
    }
    fn visit<'a, I: Input>(self, mut p: Parser<'a, I>) -> Trace {
        let mut evs = Vec::new();
        let g = guarded(|| loop {
            match p.next_event() {
                None => return End::Protocol("iterator returned None before StreamEnd".into()),
                Some(Err(e)) => return End::Err(e),
                Some(Ok((ev, span))) => {
                    clock::tick();
                    let is_end = ev == Event::StreamEnd;
                    evs.push((own(ev), span));
                    if is_end {
                        return End::Complete;
                    }
                    if evs.len() > self.max_events {
                        return End::Hang(clock::ticks());
                    }
                }
            }
        });
        let end = match g {
            Guarded::Ok(e) => e,
            Guarded::Panic(m) => End::Panic(m),
            Guarded::Hang(t) => End::Hang(t),
        };
        // The parser is dropped here, outside the guard; its Drop is trivial (Vecs and maps).
        Trace { evs, end }
    }
}

/// The reference trace: plain iteration over the real `Parser::new_from_str` (no wrapper at all).
pub fn reference_trace(prep: &Prepared, max_events: usize) -> Trace {
    IterateAll { max_events }.visit(Parser::new_from_str(&prep.cut).keep_tags(prep.keep_tags))
}

pub fn describe_event(ev: &OwnedEvent, span: &Span) -> String {
    format!(
        "{:?} @{}:{}:{}-{}:{}:{}",
        ev,
        span.start.index(),
        span.start.line(),
        span.start.col(),
        span.end.index(),
        span.end.line(),
        span.end.col()
    )
}

/// First difference between two traces, as `(field description)`; `None` if equal.
pub fn first_divergence(a: &Trace, b: &Trace) -> Option<String> {
    let n = a.evs.len().min(b.evs.len());
    for k in 0..n {
        if a.evs[k].0 != b.evs[k].0 {
            return Some(format!(
                "event@{k}: reference {:?} vs candidate {:?}",
                a.evs[k].0, b.evs[k].0
            ));
        }
        if a.evs[k].1 != b.evs[k].1 {
            return Some(format!(
                "span@{k}: reference {} vs candidate {}",
                describe_event(&a.evs[k].0, &a.evs[k].1),
                describe_event(&b.evs[k].0, &b.evs[k].1)
            ));
        }
    }
    if a.evs.len() != b.evs.len() {
        return Some(format!(
            "length: reference delivers {} events then {}, candidate {} events then {}",
            a.evs.len(),
            a.end.describe(),
            b.evs.len(),
            b.end.describe()
        ));
    }
    if a.end != b.end {
        return Some(format!(
            "end@{n}: reference {} vs candidate {}",
            a.end.describe(),
            b.end.describe()
        ));
    }
    None
}

// ------------------------------------------------------------------------- re-entrant use

const NESTED_TEXT: &str = "%TAG !e! tag:e.com,2000:\n--- &a [x, !e!t y]\n--- {k: &b z, l: *b}\n...\n";

fn nested_observation() -> String {
    let evs: Vec<String> = Parser::new_from_str(NESTED_TEXT)
        .map(|e| match e {
            Ok((ev, span)) => format!("{ev:?}@{}-{}", span.start.index(), span.end.index()),
            Err(e) => format!("Err({e})"),
        })
        .collect();
    let docs = <saphyr::Yaml as saphyr::LoadableYamlNode>::load_from_str(NESTED_TEXT);
    format!("{evs:?} / {docs:?}")
}

thread_local! {
    static NESTED_EXPECT: RefCell<Option<String>> = const { RefCell::new(None) };
}

/// Compute what the nested use must observe, outside any simulated run (once per thread), and
/// install the hook.
pub fn nested_init() {
    NESTED_EXPECT.with(|e| {
        if e.borrow().is_none() {
            *e.borrow_mut() = Some(nested_observation());
        }
    });
    let _ = clock::NESTED_USE.set(nested_use);
}

fn nested_use() -> Option<String> {
    let got = nested_observation();
    NESTED_EXPECT.with(|e| match e.borrow().as_ref() {
        Some(want) if *want != got => Some(format!(
            "a parser used by the environment in the middle of this run observed {} where a parser used on its own observes {}",
            first_line(&got),
            first_line(want)
        )),
        _ => None,
    })
}
