//! The batch driver: seeded search over many simulated runs on all cores, with the crash/stall
//! observer, the in-run determinism re-check, minimisation, replay files and evidence.

use crate::case::{Case, Outcome};
use crate::clock::{self, N_PROBES, PROBE_NAMES};
use crate::gen::{Corpus, Swarm};
use crate::json::J;
use crate::rng::{mix, SplitMix64};
use crate::{c01, c10, c17, c18, minimise};
use std::collections::{BTreeMap, HashSet};
use std::sync::atomic::{AtomicU64, Ordering};
use std::sync::Arc;
use std::time::Instant;

pub const CHUNK: u64 = 256;
pub const SWARM_BATCH: u64 = 4096;
pub const DISTINCT_CAP_QUICK: usize = 8_000_000;
pub const DISTINCT_CAP_THOROUGH: usize = 48_000_000;

#[derive(Clone, Debug)]
pub struct Config {
    pub prop: String,
    pub tier: String,
    pub seed: u64,
    pub jobs: usize,
    pub profile: String,
    pub runs: Option<u64>,
    pub verif_dir: String,
    pub write_evidence: bool,
}

pub struct Ctx {
    pub cfg: Config,
    pub corpus: Corpus,
}

pub fn prop_num(p: &str) -> u64 {
    p.trim_start_matches('C').parse().unwrap_or(0)
}

/// Number of runs of a batch, and how many of them (a prefix of the index space) belong to an
/// exhaustively enumerated sub-space.
pub fn plan(prop: &str, tier: &str, ctx: &Ctx) -> (u64, u64, String) {
    let thorough = tier == "thorough";
    match prop {
        "C10" => {
            let l = if thorough { 5 } else { 4 };
            let tl = if thorough { 4 } else { 3 };
            let ex = crate::gen::count_strings(16, l) + crate::gen::count_token_strings(tl) + crate::gen::count_context_cases() + crate::gen::dedent_count() + (crate::scale::FAMILIES.len() + crate::gen::COUNT_KINDS.len()) as u64;
            (
                ex + if thorough { 30_000_000 } else { 1_000_000 },
                ex,
                format!("every one of the {} regular input families at 700 kB and 8 documents with one kind of thing (anchors, aliases, documents, keys, tags, entries) counted to 66 000; 1 056 dedent cases; every (context, follower, suffix) triple: {} scanner contexts x 261 follower characters (38 ASCII classes, one representative per UTF-8 lead byte C2..F4, NEL, NBSP, LS, BOM, and the characters that a truncating cast turns into ASCII: U+0100+b for every ASCII b, U+10000+b for the significant ones) x 5 suffixes; every sequence of 1..{tl} tokens over the 36-token YAML alphabet {:?} and every string of length <= {l} over the 16-symbol alphabet {:?}, each x 16 environments", crate::scale::FAMILIES.len(), crate::gen::CONTEXTS.len(), crate::gen::TOKENS, crate::gen::C10_ALPHABET),
            )
        }
        "C01" => {
            let l = if thorough { 5 } else { 4 };
            let tl = if thorough { 4 } else { 3 };
            let ex = (crate::gen::w5_count(l) + crate::gen::count_token_strings(tl)) * c01::W5_ENVS.len() as u64 + crate::gen::slide_count() * 5 + crate::gen::repeat_count() * 2 + crate::gen::escape_pair_count() * 3 + c01::mega_count() + crate::gen::count_context_cases() * 2 + crate::gen::tag_split_count() * 5 + c01::giant_count() + crate::gen::dedent_count() * 2 + crate::gen::special_key_count() * 5;
            (
                ex + if thorough { 150_000_000 } else { 4_000_000 },
                ex,
                format!("every string of length <= {l} over the 14-symbol alphabet {:?} and every sequence of 1..{tl} tokens over the 36-token YAML alphabet {:?}, each x {} environments; plus {} sliding cases (a 2/3/4-byte character, literal or %-escaped, behind 0..40 ASCII characters in 14 constructs) x iterate and the four loaders; plus every ordered token pair repeated 255/256/257/1000 times x 2 clients; plus every ordered pair of 26 edge-value escapes in a double-quoted scalar x 3 clients; plus every regular input family at 700 kB and 8 count documents (66 000 anchors / aliases / documents / keys / tags / entries) x iterate and one loader; plus every (context, follower, suffix) triple of the C10 enumeration x 2 clients; plus every split of a core-schema tag URI between %TAG prefix and suffix (11 types x 7 node texts) x iterate and the four loaders (eager and deferred); plus 16 streams of 2^31..5*2^30 characters in run-length form (giant comments after every kind of token) x 2 clients; plus 1 056 dedent cases (a block nest of 1..17 levels closed by one line that starts with every kind of node or key) x 2 clients; plus 1 056 documents with special scalars (<<, =, ~, booleans, numbers in every base, timestamps) as keys over aliases and small collections as values x iterate and the four loaders", crate::gen::W5_ALPHABET, crate::gen::TOKENS, c01::W5_ENVS.len(), crate::gen::slide_count()),
            )
        }
        "C17" => {
            c17::HUGE_ON.store(thorough, Ordering::Relaxed);
            let (ex, desc) = c17::exhaustive_plan(ctx, thorough);
            (ex + if thorough { 60_000_000 } else { 2_500_000 }, ex, desc)
        }
        "C18" => {
            c18::HUGE_ON.store(thorough, Ordering::Relaxed);
            let l = if thorough { 6 } else { 4 };
            let ex = c18::exhaustive_count(l);
            (
                ex + if thorough { 60_000_000 } else { 2_000_000 },
                ex,
                format!("every byte string of length <= {l} over {{00,0A,20,2D,41,80,C3,E4,FE,FF}} x 4 traps; every sequence of 1..4 bytes over the UTF-8 malformation shapes {{41,80,BF,C0,C2,E0,ED,A0,F0,F4,90,F8}} (after an ASCII first byte) x 4 traps; every sequence of 1..4 byte tokens (ASCII, LF, CR, LS, PS, NEL, valid U+FFFD / CJK / astral, malformed pieces) as UTF-8 and as UTF-16LE x 4 traps; 720 mid-stream inserts (BOM patterns, U+FFFD, CJK, 0x80 behind ASCII prefixes of 0..4097 bytes); plus {} sized inputs (stored length 64 KiB / 1 MiB / 2 MiB and +-1, 5 kinds of tail, 3 encodings, BOM or not, 4 traps)", c18::ztail_count()),
            )
        }
        _ => (0, 0, String::new()),
    }
}

/// Heavy exhaustive cases (a megabyte each) are spread one per chunk, at the first index of the
/// first `heavy` chunks, so that the workers share them: `Ok(k)` = the k-th heavy case,
/// `Err(j)` = the j-th of the remaining cases.
pub fn spread(i: u64, heavy: u64) -> Result<u64, u64> {
    if i % CHUNK == 0 && i / CHUNK < heavy {
        Ok(i / CHUNK)
    } else {
        Err(i - heavy.min(i / CHUNK + 1))
    }
}

pub fn swarm_for(ctx: &Ctx, i: u64) -> Swarm {
    let b = i / SWARM_BATCH;
    let mut r = SplitMix64::new(mix(ctx.cfg.seed, prop_num(&ctx.cfg.prop) ^ 0x5357, b));
    Swarm::draw(&mut r, ctx.cfg.prop != "C18")
}

pub fn generate(ctx: &Ctx, i: u64, sw: &Swarm, exhaustive: u64) -> Case {
    let run_seed = mix(ctx.cfg.seed, prop_num(&ctx.cfg.prop), i);
    match ctx.cfg.prop.as_str() {
        "C10" => c10::generate(run_seed, &ctx.corpus, sw, i, exhaustive),
        "C01" => c01::generate(run_seed, &ctx.corpus, sw, i, exhaustive),
        "C17" => c17::generate(run_seed, ctx, sw, i, exhaustive),
        "C18" => c18::generate(run_seed, &ctx.corpus, sw, i, exhaustive),
        p => panic!("no generator for {p}"),
    }
}

pub fn execute(case: &Case, record_seed: Option<u64>) -> Outcome {
    match case.prop.as_str() {
        "C10" => c10::execute(case, record_seed),
        "C01" => c01::execute(case, record_seed),
        "C17" => c17::execute(case, record_seed),
        "C18" => c18::execute(case, record_seed),
        p => panic!("no executor for {p}"),
    }
}

struct Stats {
    evaluations: u64,
    sub_runs: u64,
    nontrivial: u64,
    distinct: HashSet<u64>,
    distinct_capped: bool,
    probes: [u64; N_PROBES],
    ticks: u64,
    events: u64,
    chars: u64,
    max_ticks_per_char_x100: u64,
    max_work_per_char_x100: u64,
    max_mem_per_char: u64,
    max_mem_case: String,
    work: u64,
    rechecks: u64,
    mismatches: u64,
    generators: BTreeMap<String, u64>,
    environments: BTreeMap<String, u64>,
    clients: BTreeMap<String, u64>,
    samples: Vec<(u64, J)>,
    violations: Vec<(u64, Case, String, String)>,
}

impl Default for Stats {
    fn default() -> Self {
        Stats {
            evaluations: 0,
            sub_runs: 0,
            nontrivial: 0,
            distinct: HashSet::new(),
            distinct_capped: false,
            probes: [0; N_PROBES],
            ticks: 0,
            events: 0,
            chars: 0,
            max_ticks_per_char_x100: 0,
            max_work_per_char_x100: 0,
            max_mem_per_char: 0,
            max_mem_case: String::new(),
            work: 0,
            rechecks: 0,
            mismatches: 0,
            generators: BTreeMap::new(),
            environments: BTreeMap::new(),
            clients: BTreeMap::new(),
            samples: Vec::new(),
            violations: Vec::new(),
        }
    }
}

impl Stats {
    fn merge(&mut self, o: Stats) {
        self.evaluations += o.evaluations;
        self.sub_runs += o.sub_runs;
        self.nontrivial += o.nontrivial;
        for f in o.distinct {
            if self.distinct.len() < DISTINCT_CAP_THOROUGH {
                self.distinct.insert(f);
            } else {
                self.distinct_capped = true;
            }
        }
        self.distinct_capped |= o.distinct_capped;
        for k in 0..N_PROBES {
            self.probes[k] += o.probes[k];
        }
        self.ticks += o.ticks;
        self.events += o.events;
        self.chars += o.chars;
        self.max_ticks_per_char_x100 = self.max_ticks_per_char_x100.max(o.max_ticks_per_char_x100);
        self.max_work_per_char_x100 = self.max_work_per_char_x100.max(o.max_work_per_char_x100);
        if o.max_mem_per_char > self.max_mem_per_char {
            self.max_mem_per_char = o.max_mem_per_char;
            self.max_mem_case = o.max_mem_case.clone();
        }
        self.work += o.work;
        self.rechecks += o.rechecks;
        self.mismatches += o.mismatches;
        for (k, v) in o.generators {
            *self.generators.entry(k).or_default() += v;
        }
        for (k, v) in o.environments {
            *self.environments.entry(k).or_default() += v;
        }
        for (k, v) in o.clients {
            *self.clients.entry(k).or_default() += v;
        }
        self.samples.extend(o.samples);
        self.violations.extend(o.violations);
    }
}

fn announce(line: &str) {
    if std::env::var_os("SIM_CHILD").is_some() {
        use std::io::Write;
        let out = std::io::stdout();
        let mut l = out.lock();
        let _ = writeln!(l, "@@SIM {line}");
        let _ = l.flush();
    }
}

pub fn sample_json(i: u64, case: &Case, out: &Outcome) -> J {
    let mut j = case.to_json();
    j.set("run", J::int(i));
    j.set("outcome", J::str(&out.summary));
    j.set("ticks", J::int(out.ticks));
    j.set("events", J::int(out.events));
    // keep samples readable
    if let Some(J::Str(t)) = j.get("text").cloned() {
        if t.chars().count() > 400 {
            let cut: String = t.chars().take(400).collect();
            j.set("text", J::str(&format!("{cut}…[{} chars]", t.chars().count())));
        }
    }
    if let Some(J::Str(t)) = j.get("bytes_hex").cloned() {
        if t.len() > 400 {
            j.set("bytes_hex", J::str(&format!("{}…", &t[..400])));
        }
    }
    if let Some(J::Arr(t)) = j.get("tape").cloned() {
        if t.len() > 64 {
            j.set("tape", J::Arr(t[..64].to_vec()));
            j.set("tape_len", J::int(t.len()));
        }
    }
    j
}

/// Run the batch for one property. Returns the process exit code.
pub fn run_batch(cfg: Config) -> i32 {
    let t0 = Instant::now();
    let corpus = match Corpus::load(&format!("{}/corpus/suite.jsonl", cfg.verif_dir)) {
        Ok(c) => c,
        Err(e) => {
            eprintln!("harness error: corpus: {e}");
            return 2;
        }
    };
    let ctx = Arc::new(Ctx { cfg: cfg.clone(), corpus });
    let (mut total, exhaustive, exhaustive_desc) = plan(&cfg.prop, &cfg.tier, &ctx);
    if let Some(r) = cfg.runs {
        total = exhaustive + r;
    }
    if total == 0 {
        eprintln!("harness error: no plan for {}", cfg.prop);
        return 2;
    }
    let mut n_chunks = total.div_ceil(CHUNK);
    let mut first_chunk = 0;
    // the crash observer re-runs one chunk alone when the runs of a batch that died together
    // turn out to violate the property one by one
    if let Some(c) = std::env::var("SIM_ONLY_CHUNK").ok().and_then(|v| v.parse::<u64>().ok()) {
        first_chunk = c.min(n_chunks);
        n_chunks = (c + 1).min(n_chunks);
    }
    let next_chunk = Arc::new(AtomicU64::new(first_chunk));
    let stop_at = Arc::new(AtomicU64::new(u64::MAX));
    let sample_step = (total / 5).max(1);
    let distinct_cap = if cfg.tier == "thorough" { DISTINCT_CAP_THOROUGH } else { DISTINCT_CAP_QUICK };

    // observer state: per worker (current run index + 1, start in ms since t0)
    let progress: Arc<Vec<(AtomicU64, AtomicU64)>> =
        Arc::new((0..cfg.jobs).map(|_| (AtomicU64::new(0), AtomicU64::new(0))).collect());
    let (tx, rx) = std::sync::mpsc::channel::<(usize, Option<Stats>)>();

    let mut handles = Vec::new();
    for w in 0..cfg.jobs {
        let ctx = ctx.clone();
        let next_chunk = next_chunk.clone();
        let stop_at = stop_at.clone();
        let progress = progress.clone();
        let tx = tx.clone();
        let h = std::thread::Builder::new()
            .name(format!("sim-{w}"))
            .stack_size(256 << 20)
            .spawn(move || {
                // If this closure unwinds (a harness bug, never a simulated run), tell the collector.
                struct Guard(usize, std::sync::mpsc::Sender<(usize, Option<Stats>)>, bool);
                impl Drop for Guard {
                    fn drop(&mut self) {
                        if !self.2 {
                            let _ = self.1.send((self.0, None));
                        }
                    }
                }
                let mut guard = Guard(w, tx.clone(), false);
                let mut st = Stats::default();
                let mut sw_idx = u64::MAX;
                let mut sw = swarm_for(&ctx, 0);
                loop {
                    let c = next_chunk.fetch_add(1, Ordering::SeqCst);
                    if c >= n_chunks || c * CHUNK > stop_at.load(Ordering::SeqCst) {
                        break;
                    }
                    announce(&format!("B {w} {c}"));
                    for i in c * CHUNK..((c + 1) * CHUNK).min(total) {
                        if i > stop_at.load(Ordering::Relaxed) {
                            break;
                        }
                        if i / SWARM_BATCH != sw_idx {
                            sw_idx = i / SWARM_BATCH;
                            sw = swarm_for(&ctx, i);
                        }
                        progress[w].1.store(t0.elapsed().as_millis() as u64, Ordering::Relaxed);
                        progress[w].0.store(i + 1, Ordering::Relaxed);
                        let case = generate(&ctx, i, &sw, exhaustive);
                        let run_seed = mix(ctx.cfg.seed, prop_num(&ctx.cfg.prop) ^ 0x7A9E, i);
                        let out = execute(&case, Some(run_seed));
                        st.evaluations += 1;
                        st.sub_runs += out.sub_runs;
                        st.ticks += out.ticks;
                        st.events += out.events;
                        st.chars += out.n_chars;
                        if out.sub_runs <= 1 || ctx.cfg.prop == "C01" {
                            let r = out.ticks * 100 / (out.n_chars + 16);
                            st.max_ticks_per_char_x100 = st.max_ticks_per_char_x100.max(r);
                            let rw = out.work * 100 / (out.n_chars + 16);
                            st.max_work_per_char_x100 = st.max_work_per_char_x100.max(rw);
                            // percent of the memory budget used
                            let rm = if out.mem_budget > 0 { out.mem_peak * 100 / out.mem_budget } else { 0 };
                            if rm > st.max_mem_per_char {
                                st.max_mem_per_char = rm;
                                st.max_mem_case = format!("run {i}: {} bytes peak for {} chars/bytes ({}, {})", out.mem_peak, out.n_chars, case.gen, if case.prop == "C18" { case.trap.clone() } else { case.client.describe() });
                            }
                        }
                        st.work += out.work;
                        *st.generators.entry(case.gen.clone()).or_default() += 1;
                        if ctx.cfg.prop == "C01" || ctx.cfg.prop == "C17" {
                            *st.environments.entry(case.input.describe()).or_default() += 1;
                            *st.clients.entry(case.client.describe()).or_default() += 1;
                        }
                        if out.nontrivial {
                            st.nontrivial += 1;
                            if st.distinct.len() < distinct_cap / ctx.cfg.jobs.max(1) + 1 {
                                st.distinct.insert(out.fingerprint);
                            } else {
                                st.distinct_capped = true;
                            }
                        }
                        if i % sample_step == 0 && st.samples.len() < 8 {
                            st.samples.push((i, sample_json(i, &case, &out)));
                        }
                        // determinism re-check: ~1 % of the runs are executed a second time from
                        // the recorded tape; fingerprint and verdict must be identical.
                        if i % 97 == 0 {
                            let mut c2 = case.clone();
                            c2.tape = out.tape.clone();
                            let o2 = execute(&c2, None);
                            st.rechecks += 1;
                            if o2.fingerprint != out.fingerprint
                                || o2.violation.as_ref().map(|v| &v.0) != out.violation.as_ref().map(|v| &v.0)
                            {
                                st.mismatches += 1;
                            }
                        }
                        if let Some((class, detail)) = out.violation {
                            let mut c2 = case.clone();
                            c2.tape = out.tape.clone();
                            st.violations.push((i, c2, class, detail));
                            stop_at.fetch_min(i, Ordering::SeqCst);
                        }
                    }
                }
                progress[w].0.store(0, Ordering::Relaxed);
                let p = clock::take_probes();
                for k in 0..N_PROBES {
                    st.probes[k] += p[k];
                }
                guard.2 = true;
                let _ = tx.send((w, Some(st)));
            })
            .expect("spawn worker");
        handles.push(h);
    }
    drop(tx);
    // Collector + wall-clock observer. The wall clock is read only here, never by a run: it cannot
    // change what a run does, only bound how long we wait for code that loops without touching
    // any seam (where the step clock cannot fire).
    let limit_ms: u64 = std::env::var("SIM_STALL_MS").ok().and_then(|v| v.parse().ok()).unwrap_or(20_000);
    let mut st = Stats::default();
    let mut finished = vec![false; cfg.jobs];
    let mut stalled: Vec<(usize, u64)> = Vec::new();
    let mut stall_deadline: Option<Instant> = None;
    loop {
        if finished.iter().enumerate().all(|(w, f)| *f || stalled.iter().any(|s| s.0 == w)) {
            break;
        }
        if let Some(d) = stall_deadline {
            if Instant::now() > d {
                break;
            }
        }
        match rx.recv_timeout(std::time::Duration::from_millis(200)) {
            Ok((w, Some(s))) => {
                finished[w] = true;
                st.merge(s);
            }
            Ok((_, None)) => {
                eprintln!("harness error: a worker thread panicked outside a simulated run");
                return 2;
            }
            Err(std::sync::mpsc::RecvTimeoutError::Disconnected) => break,
            Err(std::sync::mpsc::RecvTimeoutError::Timeout) => {}
        }
        let now = t0.elapsed().as_millis() as u64;
        for (w, p) in progress.iter().enumerate() {
            let run = p.0.load(Ordering::Relaxed);
            let started = p.1.load(Ordering::Relaxed);
            if run != 0 && !finished[w] && now.saturating_sub(started) > limit_ms && !stalled.iter().any(|s| s.0 == w) {
                stalled.push((w, run - 1));
                // stop handing out work; give the other workers a moment to finish their run
                stop_at.fetch_min(run - 1, Ordering::SeqCst);
                stall_deadline.get_or_insert(Instant::now() + std::time::Duration::from_secs(5));
            }
        }
    }
    let any_stalled = !stalled.is_empty();
    for (_, i) in &stalled {
        let sw = swarm_for(&ctx, *i);
        let case = generate(&ctx, *i, &sw, exhaustive);
        st.evaluations += 1;
        st.violations.push((
            *i,
            case,
            "HANG(watchdog)".to_string(),
            format!("run {i} did not finish within {limit_ms} ms of wall time (no seam was touched, so the step clock could not fire)"),
        ));
    }
    let _ = &handles;
    let wall = t0.elapsed().as_secs_f64();

    st.samples.sort_by_key(|s| s.0);
    st.violations.sort_by_key(|v| v.0);
    let mut exit = 0;
    let mut violation_json = J::Null;
    if st.mismatches > 0 {
        eprintln!(
            "harness error: {} of {} determinism re-checks mismatched; results are not trustworthy",
            st.mismatches, st.rechecks
        );
        exit = 2;
    }
    // Prefer a violation the step clock or an oracle found (it minimises and replays in
    // microseconds) over a wall-clock stall, then the lowest run index.
    st.violations.sort_by_key(|v| (v.2 == "HANG(watchdog)", v.0));
    if let Some((i, case, class, detail)) = st.violations.first().cloned() {
        let (min_case, min_detail, steps) = if class == "HANG(watchdog)" {
            (case.clone(), detail.clone(), 0)
        } else {
            // minimisation re-executes cases: it needs the same 256 MiB stack as the workers
            let (c2, cl2) = (case.clone(), class.clone());
            match std::thread::Builder::new().stack_size(256 << 20).spawn(move || minimise::minimise(&c2, &cl2)).map(std::thread::JoinHandle::join) {
                Ok(Ok(r)) => r,
                _ => (case.clone(), detail.clone(), 0),
            }
        };
        let path = format!("{}/replays/{}-{}-{}.json", cfg.verif_dir, cfg.prop, cfg.seed, i);
        let rj = replay_json(&cfg, i, &min_case, &class, &min_detail, Some((&case, &detail)), steps);
        let _ = std::fs::create_dir_all(format!("{}/replays", cfg.verif_dir));
        if let Err(e) = std::fs::write(&path, rj.to_pretty()) {
            eprintln!("harness error: cannot write {path}: {e}");
            return 2;
        }
        let verified = verify_replay_in_fresh_process(&path, &cfg.prop, &class);
        println!("violation class={class} run={i} seed={} detail={}", cfg.seed, crate::trace::first_line(&min_detail));
        println!(
            "replay file verified in a fresh process: {}",
            if verified { "yes (same class reproduced)" } else { "NO" }
        );
        println!("VIOLATION property={} replay={path}", cfg.prop);
        violation_json = J::obj()
            .with("run", J::int(i))
            .with("class", J::str(&class))
            .with("detail", J::str(&min_detail))
            .with("replay", J::str(&path))
            .with("replay_verified_in_fresh_process", J::Bool(verified))
            .with("minimisation_steps", J::int(steps));
        if exit == 0 {
            exit = 1;
        }
    }

    if cfg.write_evidence {
        let ev = evidence_json(&cfg, &st, total, exhaustive, &exhaustive_desc, wall, violation_json);
        let path = format!("{}/evidence/{}.json", cfg.verif_dir, cfg.prop);
        let _ = std::fs::create_dir_all(format!("{}/evidence", cfg.verif_dir));
        if let Err(e) = std::fs::write(&path, ev.to_pretty()) {
            eprintln!("harness error: cannot write {path}: {e}");
            return 2;
        }
    }
    let zero: Vec<&str> = relevant_probes(&cfg.prop)
        .into_iter()
        .filter(|k| st.probes[*k] == 0)
        .map(|k| PROBE_NAMES[k])
        .collect();
    println!(
        "{} {} seed={} profile={}: {} runs ({} sub-executions), {} distinct non-trivial, {:.1}s, {:.0} runs/h, probes at zero: {:?}",
        cfg.prop,
        cfg.tier,
        cfg.seed,
        cfg.profile,
        st.evaluations,
        st.sub_runs,
        st.distinct.len(),
        wall,
        st.evaluations as f64 / wall * 3600.0,
        zero
    );
    if any_stalled {
        // a stalled worker thread can never be joined: leave the process
        use std::io::Write;
        let _ = std::io::stdout().flush();
        std::process::exit(exit);
    }
    exit
}

pub fn replay_json(
    cfg: &Config,
    run: u64,
    case: &Case,
    class: &str,
    detail: &str,
    original: Option<(&Case, &str)>,
    steps: u64,
) -> J {
    let mut j = J::obj();
    j.set("property", J::str(&cfg.prop));
    j.set("seed", J::int(cfg.seed as i64));
    j.set("run", J::int(run));
    j.set("profile", J::str(&cfg.profile));
    j.set("violation", J::obj().with("class", J::str(class)).with("detail", J::str(detail)));
    j.set("case", case.to_json());
    j.set("minimisation_steps", J::int(steps));
    if let Some((oc, od)) = original {
        j.set("original_case", oc.to_json());
        j.set("original_detail", J::str(od));
    }
    j
}

fn verify_replay_in_fresh_process(path: &str, _prop: &str, class: &str) -> bool {
    let exe = match std::env::current_exe() {
        Ok(e) => e,
        Err(_) => return false,
    };
    let out = std::process::Command::new(exe).arg("--replay").arg(path).env_remove("SIM_CHILD").output();
    match out {
        Ok(o) => {
            let s = String::from_utf8_lossy(&o.stdout);
            o.status.code() == Some(1) && s.contains(&format!("class={class}"))
        }
        Err(_) => false,
    }
}

fn relevant_probes(prop: &str) -> Vec<usize> {
    use clock::Probe as P;
    let v: Vec<P> = match prop {
        "C10" => vec![
            P::RawReadPath, P::BreakPushedBack, P::BreakLeftUnconsumed, P::LookaheadFullCap, P::LookaheadPadded,
            P::SourceEofEarly, P::ErrorRuns, P::CompleteRuns, P::NestedParse,
        ],
        "C01" => vec![
            P::RawReadPath, P::BreakPushedBack, P::BreakLeftUnconsumed, P::LookaheadFullCap, P::LookaheadPadded,
            P::SourceEofEarly, P::ErrorRuns, P::CompleteRuns, P::PeekRepeated, P::CallsAfterEnd, P::LoadSingleMultiDoc, P::NestedParse,
        ],
        "C17" => vec![
            P::PeekAtError, P::PeekRepeated, P::CallsAfterEnd, P::LoadSingleMultiDoc, P::AliasPrevDoc, P::ErrorRuns,
            P::CompleteRuns, P::SourceEofEarly, P::NestedParse,
        ],
        "C18" => vec![
            P::ReadShort, P::ReadEintr, P::ReadHardError, P::ReadEarlyEof, P::ByteTruncate, P::ByteFlip, P::ByteOverwrite,
            P::ByteInsert, P::ByteDelete, P::BomDrop, P::BomDup, P::EncSplice, P::TrapCalled, P::TrapContinueNothing,
            P::TrapContinueFffd, P::TrapContinueBig, P::TrapBreakEmpty, P::TrapBreakMsg, P::DecodeMultiIter,
            P::DecodeErrDecode, P::DecodeErrScan, P::DecodeErrIo, P::DecodeOk, P::NestedDecodeInRead, P::NestedDecodeInTrap, P::TrapShrinksOutput,
        ],
        _ => vec![],
    };
    v.into_iter().map(|p| p as usize).collect()
}

fn components(prop: &str) -> J {
    let (real, sim): (Vec<&str>, Vec<&str>) = match prop {
        "C18" => (
            vec!["YamlDecoder::decode", "decode_loop", "detect_utf16_endianness", "encoding_rs (as shipped)", "std::io::Read::read_to_end (std default impl)", "Yaml::load_from_str -> scanner, parser, loader, scalar resolver"],
            vec!["SimReader (io::Read: short reads, EINTR, hard error, early EOF, nested use of another YamlDecoder)", "stored-byte fault injector", "SimTrap (callback: per-call or constant policy; pushes, pops, clears, releases capacity, nested decode, breaks)", "counting global allocator (memory clock)", "step clock (decode_loop hook, reader calls)", "reference decoder (oracle only; std::str::from_utf8 / char::decode_utf16)"],
        ),
        _ => (
            vec!["Scanner", "Parser (state machine, peek/next/load)", "StrInput", "BufferedInput", "YamlLoader + Yaml/YamlOwned/MarkedYaml/MarkedYamlOwned (C01 loaders)", "arraydeque, hashlink (as shipped)"],
            vec!["SimSource (char iterator with early EOF and six size_hint answers)", "Ticking<I> (step-clock wrapper, forwards every method)", "SimRing (exact-fill ring buffer, any capacity >= 8, push-back policy buggify)", "SimSlice (virtual buffer, any capacity)", "SimRle (run-length stream of up to 5*2^30 characters with bulk skips)", "nested use of the library from inside a seam call", "counting global allocator (memory clock)", "client call schedule", "step clock"],
        ),
    };
    J::obj()
        .with("real", J::Arr(real.into_iter().map(J::str).collect()))
        .with("simulated", J::Arr(sim.into_iter().map(J::str).collect()))
}

fn rule_for(prop: &str) -> &'static str {
    match prop {
        "C10" => "One case = one text parsed through the reference and 16-18 candidate environments: first the complete enumerations (context x follower x suffix, short token sequences, short character strings), then swarm-weighted draws from corpus / mutated corpus / rendered tree / soups / splices / deep nests / many-things with optional early source EOF. Distinct = distinct 64-bit fingerprint of the complete seam-interaction trace (every Input call with its argument and buffer fill, every source read, every push-back decision, over all candidates). Non-trivial = the reference delivered >= 4 events or >= 1 fault fired.",
        "C01" => "One case = (text, environment, client schedule). The first `exhaustive_subspace.cases` indices enumerate every short character string (W5) and every short token sequence (W8) x 6 environments; the rest are seeded draws over W1-W9. Distinct = distinct fingerprint of the seam-interaction trace (Input calls with arguments and buffer fill, source reads, client calls, events delivered). Non-trivial = >= 4 events delivered or >= 1 fault fired.",
        "C17" => "One case = (text, environment, explicit peek/next history, push-mode checks). The first indices enumerate every history with 0..2 peeks before each next and 7 after-end tails for a fixed sample of short streams; the rest are seeded draws. Distinct = distinct fingerprint of (seam-interaction trace, client call sequence, results). Non-trivial = reference stream has >= 4 events.",
        "C18" => "One case = (stored bytes after faults, reader schedule, trap, callback decisions). The first indices enumerate every short byte string x 4 traps; the rest are seeded draws in two configurations (fault-free / fault-injecting, reported separately). Distinct = distinct fingerprint of (reader call sizes and faults, callback decisions and arguments, decode-loop ticks, result kind, stored bytes hash). Non-trivial = >= 4 bytes stored or >= 1 fault fired.",
        _ => "",
    }
}

#[allow(clippy::too_many_arguments)]
fn evidence_json(cfg: &Config, st: &Stats, total: u64, exhaustive: u64, exhaustive_desc: &str, wall: f64, violation: J) -> J {
    let mut faults = J::obj();
    let mut probes = J::obj();
    for k in 0..N_PROBES {
        if !relevant_probes(&cfg.prop).contains(&k) {
            continue;
        }
        if clock::is_fault(k) {
            faults.set(PROBE_NAMES[k], J::int(st.probes[k]));
        } else {
            probes.set(PROBE_NAMES[k], J::int(st.probes[k]));
        }
    }
    let zero: Vec<J> = relevant_probes(&cfg.prop)
        .into_iter()
        .filter(|k| st.probes[*k] == 0)
        .map(|k| J::str(PROBE_NAMES[k]))
        .collect();
    let mut cov = J::obj();
    cov.set("evaluations", J::int(st.evaluations));
    cov.set("distinct_nontrivial", J::int(st.distinct.len()));
    cov.set("distinct_count_capped", J::Bool(st.distinct_capped));
    cov.set("nontrivial_runs", J::int(st.nontrivial));
    cov.set("rule", J::str(rule_for(&cfg.prop)));
    cov.set("samples", J::Arr(st.samples.iter().take(5).map(|s| s.1.clone()).collect()));
    cov.set("sub_executions", J::int(st.sub_runs));
    cov.set("planned_runs", J::int(total));
    cov.set("runs_per_hour", J::int((st.evaluations as f64 / wall.max(0.001) * 3600.0) as i64));
    cov.set("seeds", J::Arr(vec![J::int(cfg.seed as i64)]));
    cov.set("seeds_per_hour", J::Float(3600.0 / wall.max(0.001)));
    cov.set("sim_ticks_total", J::int(st.ticks));
    cov.set("simulated_time_note", J::str("the library has no timers; simulated time is the step clock (one tick per seam call / event / decode-loop iteration)"));
    cov.set("events_total", J::int(st.events));
    cov.set("chars_offered_total", J::int(st.chars));
    cov.set("max_ticks_per_char_observed", J::Float(st.max_ticks_per_char_x100 as f64 / 100.0));
    cov.set("max_work_ticks_per_char_observed", J::Float(st.max_work_per_char_x100 as f64 / 100.0));
    cov.set("work_ticks_total", J::int(st.work));
    if cfg.prop == "C01" || cfg.prop == "C18" {
        cov.set("max_percent_of_memory_budget_observed", J::int(st.max_mem_per_char));
        cov.set("max_peak_live_bytes_case", J::str(&st.max_mem_case));
    }
    cov.set("work_bound", J::str("seam ticks <= 200*(chars+16); library-internal loop iterations (guarded work hooks) <= 1000*(chars+16); events <= 8*(chars+4)"));
    cov.set("fault_counts", faults);
    cov.set("probes", probes);
    cov.set("probes_at_zero", J::Arr(zero));
    cov.set("generators", J::from_counts(&st.generators));
    if !st.environments.is_empty() {
        cov.set("environments", J::from_counts(&st.environments));
        cov.set("clients", J::from_counts(&st.clients));
    }
    cov.set("components", components(&cfg.prop));
    cov.set("determinism_rechecks", J::int(st.rechecks));
    cov.set("determinism_mismatches", J::int(st.mismatches));
    cov.set("workers", J::int(cfg.jobs));
    cov.set("profile", J::str(&cfg.profile));
    if exhaustive > 0 {
        cov.set(
            "exhaustive_subspace",
            J::obj()
                .with("cases", J::int(exhaustive))
                .with("description", J::str(exhaustive_desc))
                .with("completed", J::Bool(st.violations.is_empty())),
        );
    }
    cov.set("exhaustive", J::Bool(false));
    if violation != J::Null {
        cov.set("violation", violation.clone());
    }
    J::obj()
        .with("property_id", J::str(&cfg.prop))
        .with("tier", J::str(&cfg.tier))
        .with("seed", J::int(cfg.seed as i64))
        .with("level", J::str("exploration"))
        .with("coverage", cov)
        .with(
            "assumptions",
            J::Arr(
                [
                    "A clean batch is evidence, not proof: the search samples schedules, faults and inputs.",
                    "Char sources are fused (return None forever after the first None); non-fused sources are outside the input contract and are not injected.",
                    "Simulated inputs have capacity >= 8, the documented minimum.",
                    "Every loop of the scanner, parser and string input reports to the work clock (guarded hooks); code that loops outside all of them and touches no seam is only caught by the wall-clock observer (20 s).",
                ]
                .iter()
                .map(|s| J::str(s))
                .collect(),
            ),
        )
        .with("wall_s", J::Float(wall))
        .with("violations", J::int(i64::from(violation != J::Null)))
}
