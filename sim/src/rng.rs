//! The single source of randomness: SplitMix64 seeded from VERIF_SEED, and the decision tape.
//!
//! Nothing else in the simulator draws random numbers, reads a clock or iterates a randomised
//! hash map. Logging, statistics and fingerprints never touch these types.

#[derive(Clone, Debug)]
pub struct SplitMix64(pub u64);

impl SplitMix64 {
    pub fn new(seed: u64) -> Self {
        SplitMix64(seed)
    }
    #[inline]
    pub fn next_u64(&mut self) -> u64 {
        self.0 = self.0.wrapping_add(0x9E37_79B9_7F4A_7C15);
        let mut z = self.0;
        z = (z ^ (z >> 30)).wrapping_mul(0xBF58_476D_1CE4_E5B9);
        z = (z ^ (z >> 27)).wrapping_mul(0x94D0_49BB_1331_11EB);
        z ^ (z >> 31)
    }
    /// Uniform in 0..n (n >= 1). Slight modulo bias is irrelevant here.
    #[inline]
    pub fn below(&mut self, n: u64) -> u64 {
        debug_assert!(n >= 1);
        self.next_u64() % n
    }
    #[inline]
    pub fn usize(&mut self, n: usize) -> usize {
        self.below(n as u64) as usize
    }
    /// True with probability num/den.
    #[inline]
    pub fn chance(&mut self, num: u64, den: u64) -> bool {
        self.below(den) < num
    }
    pub fn pick<'a, T>(&mut self, xs: &'a [T]) -> &'a T {
        &xs[self.usize(xs.len())]
    }
}

/// Derive the seed of run `i` of property `prop` under master seed `seed`.
pub fn mix(seed: u64, prop: u64, i: u64) -> u64 {
    let mut r = SplitMix64::new(seed ^ prop.wrapping_mul(0xA24B_AED4_963E_E407));
    let a = r.next_u64();
    let mut r2 = SplitMix64::new(a ^ i.wrapping_mul(0x9FB2_1C65_1E98_DF25));
    r2.next_u64()
}

/// The decision tape: every choice made *while a run executes* (as opposed to while its case is
/// generated) goes through `choose`. In record mode the values come from the run's PRNG and are
/// appended to `rec`; in replay mode they are read back from `rec` and the PRNG does not exist.
/// Reading past the end of a replayed tape yields 0, and 0 is always the plainest choice.
#[derive(Clone, Debug)]
pub struct Tape {
    pub rec: Vec<u32>,
    pos: usize,
    rng: Option<SplitMix64>,
}

impl Tape {
    pub fn record(seed: u64) -> Self {
        Tape {
            rec: Vec::new(),
            pos: 0,
            rng: Some(SplitMix64::new(seed)),
        }
    }
    pub fn replay(rec: Vec<u32>) -> Self {
        Tape {
            rec,
            pos: 0,
            rng: None,
        }
    }
    #[inline]
    pub fn choose(&mut self, n: u32) -> u32 {
        debug_assert!(n >= 1);
        let v = if let Some(r) = self.rng.as_mut() {
            let v = (r.next_u64() % u64::from(n)) as u32;
            self.rec.push(v);
            v
        } else if self.pos < self.rec.len() {
            self.rec[self.pos] % n
        } else {
            0
        };
        self.pos += 1;
        v
    }
    pub fn used(&self) -> usize {
        self.pos
    }
}

/// FNV-1a style 64-bit accumulator used for trace fingerprints (no randomness involved).
#[derive(Clone, Copy, Debug)]
pub struct Fp(pub u64);

impl Default for Fp {
    fn default() -> Self {
        Fp(0xcbf2_9ce4_8422_2325)
    }
}

impl Fp {
    #[inline]
    pub fn mix(&mut self, x: u64) {
        self.0 ^= x;
        self.0 = self.0.wrapping_mul(0x0000_0100_0000_01B3);
        self.0 ^= self.0 >> 29;
    }
    pub fn mix_str(&mut self, s: &str) {
        for b in s.as_bytes() {
            self.mix(u64::from(*b));
        }
        self.mix(0xff);
    }
}
