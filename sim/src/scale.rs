//! C01, linear-work clause — the instruction clock.
//!
//! The step clocks in `clock.rs` count seam calls and hooked loop iterations; work hidden inside
//! a single call (a `chars().count()` over the whole scalar so far, a `Vec::remove(0)`, a
//! `String` re-scan) is invisible to them. This module measures *every* instruction the process
//! retires for a scenario, deterministically, by executing it in a child process under
//! `valgrind --tool=cachegrind --cache-sim=no` (a CPU simulator: the count is exactly
//! repeatable, independent of machine load, and never reads a wall clock).
//!
//! Scenario = (input family, size, consumer API). Each family is rendered at sizes n and 4n;
//! with I0 the cost of the same API on an empty input, the oracle is
//! `(I(4n) - I0) / (I(n) - I0) <= 6` (linear work gives 4, quadratic 16).

use crate::batch::Config;
use crate::case::Case;
use crate::json::J;
use saphyr::{LoadableYamlNode, MarkedYaml, Yaml};
use saphyr_parser::Parser;
use std::process::{Command, Stdio};
use std::sync::atomic::{AtomicUsize, Ordering};
use std::sync::{Arc, Mutex};

pub const FAMILIES: [&str; 87] = [
    "block-literal-lines",
    "block-folded-long-lines",
    "block-wide-indent",
    "block-keep-blank-lines",
    "plain-multiline",
    "plain-long-words",
    "map-entries",
    "seq-entries",
    "flow-seq-one-line",
    "flow-seq-many-lines",
    "flow-map-long",
    "many-documents",
    "dq-escapes-folded",
    "sq-long",
    "comment-lines",
    "anchors-aliases",
    "nested-repeat",
    "tagged-entries",
    "explicit-keys",
    "crlf-utf8-map",
    "long-key-lines",
    "flow-single-pairs",
    "nest100-per-line",
    "indentless-sequences",
    "flow-multiline-comments",
    "anchored-small-collections",
    "reserved-directives",
    "tag-directives",
    "document-end-markers",
    "blank-and-comment-prologue",
    // combinations: the product of two repeated things
    "anchored-documents",
    "tagged-directive-documents",
    "anchor-redefinitions",
    "aliases-in-every-document",
    "anchored-map-values",
    "documents-of-flow-collections",
    "sibling-sequence-keys",
    "sibling-mapping-keys",
    "sibling-long-scalar-keys",
    "deep-nest-many-aliases",
    "deep-nest-many-scalars",
    "wide-flowseq-key-in-flowseq",
    "wide-flowseq-key-in-flowmap",
    "wide-flowseq-key-in-flowmap-lines",
    "wide-flowmap-key-in-flowmap",
    "wide-flowseq-key-explicit",
    "wide-blockseq-key-explicit",
    "many-tag-handles-one-document",
    "all-anchors-then-all-aliases",
    "deep-nest-many-anchored",
    "deep-nest-many-tagged",
    "deep-nest-many-map-entries",
    "deep-nest-tab-run",
    "deep-nest-blank-run",
    "deep-nest-blank-lines",
    "deep-nest-comment-lines",
    "big-anchor-document-then-many-documents",
    "big-tag-document-then-many-documents",
    "distinct-tag-handle-per-document",
    "indent-map-chain-wide-payload-unresolvable-tag",
    "indent-map-chain-wide-payload",
    "map-entries-twice",
    "explicit-keys-twice",
    "sibling-sequence-keys-twice",
    "flow-map-long-twice",
    "flow-seq-explicit-keys",
    "flow-map-explicit-keys",
    "flow-seq-anchored-tagged-entries",
    "flow-seq-explicit-single-pairs",
    "wide-flowseq-then-deep-nest",
    "wide-blockseq-then-deep-nest",
    "wide-flowmap-then-deep-nest",
    "wide-flowseq-then-deep-flow-nests",
    // one scalar made of thousands of repetitions of a fold / escape / blank-line unit
    "units-dq-escaped-break-blank-line",
    "units-dq-escaped-break",
    "units-dq-blank-lines",
    "units-dq-trailing-blanks-break",
    "units-dq-escaped-blank-break",
    "units-dq-tab-break",
    "units-sq-blank-lines",
    "units-sq-quote-break",
    "units-plain-blank-lines",
    "units-plain-trailing-blanks",
    "units-folded-blank-lines",
    "units-folded-more-indented",
    "units-literal-blank-indented",
    "units-flow-dq-escaped-break-blank-line",
];
pub const APIS: [&str; 6] = ["iter-str", "iter-buffered", "load-yaml", "load-lazy", "iter-keep-tags", "load-marked"];
/// The level-scaled scenarios (known findings of the eager loaders) leave the lazy route out: it is the same loader.
pub const SPECIAL_APIS: [&str; 4] = ["iter-str", "iter-buffered", "load-yaml", "load-marked"];
pub const RATIO_LIMIT: f64 = 6.0;

/// "Billion laughs": `levels` anchored sequences, each aliasing the previous one `width` times.
pub fn alias_text(levels: usize, width: usize) -> String {
    let mut s = String::new();
    s.push_str("a0: &a0 [");
    s.push_str(&vec!["x"; width].join(","));
    s.push_str("]\n");
    for i in 1..levels {
        s.push_str(&format!("a{i}: &a{i} ["));
        s.push_str(&vec![format!("*a{}", i - 1); width].join(","));
        s.push_str("]\n");
    }
    s
}

/// Render a family at (about) `bytes` bytes. For `alias-expansion` the size is the number of
/// levels, not bytes (each level adds ~46 bytes and multiplies the expanded tree by 9).
pub fn render(family: &str, bytes: usize) -> String {
    if family == "alias-expansion" {
        return alias_text(bytes, 9);
    }
    if family == "alias-fanout" {
        // one anchored sequence of N items, aliased N times: N^2 cloned nodes for O(N) text
        let n = bytes;
        let mut s = String::from("a: &big [");
        for _ in 0..n {
            s.push_str("x, ");
        }
        s.push_str("x]\nb: [");
        for _ in 0..n {
            s.push_str("*big, ");
        }
        s.push_str("*big]\n");
        return s;
    }
    if family == "nested-complex-keys" {
        // `? ? ? ... a`: each level is a mapping whose KEY is the mapping below it
        let mut s = String::with_capacity(2 * bytes + 2);
        for _ in 0..bytes {
            s.push_str("? ");
        }
        s.push_str("a\n");
        return s;
    }
    let mut s = String::with_capacity(bytes + 256);
    let mut k = 0usize;
    match family {
        "block-literal-lines" => {
            s.push_str("key: |\n");
            while s.len() < bytes {
                s.push_str("  xxxxxxxxxxxxxxxxxxxxxxxx\n");
            }
        }
        "block-folded-long-lines" => {
            s.push_str("key: >\n");
            while s.len() < bytes {
                s.push_str("  ");
                for _ in 0..30 {
                    s.push_str("word word ");
                }
                s.push('\n');
            }
        }
        "block-wide-indent" => {
            s.push_str("a:\n  b:\n    c:\n      d: |\n");
            while s.len() < bytes {
                s.push_str("                    content line here\n");
            }
        }
        "block-keep-blank-lines" => {
            s.push_str("key: |+\n");
            while s.len() < bytes {
                s.push_str("  x\n\n   \n");
            }
        }
        "plain-multiline" => {
            s.push_str("key: start\n");
            while s.len() < bytes {
                s.push_str("  continued plain scalar line\n");
            }
        }
        "plain-long-words" => {
            while s.len() < bytes {
                s.push_str("- ");
                for _ in 0..40 {
                    s.push_str("abcdefghij");
                }
                s.push('\n');
            }
        }
        // every distinct key written twice in the same mapping
        "map-entries-twice" | "explicit-keys-twice" | "sibling-sequence-keys-twice" | "flow-map-long-twice" => {
            let flow = family == "flow-map-long-twice";
            if flow {
                s.push('{');
            }
            let mut n = 0usize;
            for pass in 0..2 {
                let mut j = 0usize;
                while (pass == 0 && s.len() < bytes / 2) || (pass == 1 && j < n) {
                    match family {
                        "map-entries-twice" => s.push_str(&format!("key{j}: value{j}\n")),
                        "explicit-keys-twice" => s.push_str(&format!("? key{j}\n: value\n")),
                        "sibling-sequence-keys-twice" => s.push_str(&format!("[{}, {}]: v\n", j / 100, j % 100)),
                        _ => s.push_str(&format!("k{j}: v, ")),
                    }
                    j += 1;
                }
                if pass == 0 {
                    n = j;
                }
            }
            if flow {
                s.push_str("z: z}\n");
            }
        }
        // one flow collection with thousands of explicit keys / anchored and tagged entries
        "flow-seq-explicit-keys" | "flow-map-explicit-keys" | "flow-seq-anchored-tagged-entries" | "flow-seq-explicit-single-pairs" => {
            s.push(if family == "flow-map-explicit-keys" { '{' } else { '[' });
            while s.len() < bytes {
                match family {
                    "flow-seq-explicit-keys" => s.push_str("? a, "),
                    "flow-map-explicit-keys" => s.push_str(&format!("? k{k} : v, ")),
                    "flow-seq-anchored-tagged-entries" => s.push_str(&format!("&a{k} !t x, *a{k}, ")),
                    _ => s.push_str("? a : b, "),
                }
                k += 1;
            }
            s.push_str(if family == "flow-map-explicit-keys" { "z: z}\n" } else { "z]\n" });
        }
        "map-entries" => {
            while s.len() < bytes {
                s.push_str(&format!("key{k}: value{k}\n"));
                k += 1;
            }
        }
        "seq-entries" => {
            while s.len() < bytes {
                s.push_str("- item\n");
            }
        }
        "flow-seq-one-line" => {
            s.push('[');
            while s.len() < bytes {
                s.push_str("a, ");
            }
            s.push_str("a]\n");
        }
        "flow-seq-many-lines" => {
            s.push_str("[\n");
            while s.len() < bytes {
                s.push_str("  a, b, {c: d},\n");
            }
            s.push_str("  z]\n");
        }
        "flow-map-long" => {
            s.push('{');
            while s.len() < bytes {
                s.push_str(&format!("k{k}: v, "));
                k += 1;
            }
            s.push_str("z: z}\n");
        }
        "many-documents" => {
            while s.len() < bytes {
                s.push_str("--- a\n...\n");
            }
        }
        f if f.starts_with("units-") => {
            let (open, unit, close): (&str, &str, &str) = match f {
                "units-dq-escaped-break-blank-line" => ("key: \"", "x\\\n\n ", "end\"\n"),
                "units-dq-escaped-break" => ("key: \"", "x\\\n  ", "end\"\n"),
                "units-dq-blank-lines" => ("key: \"", "x\n\n\n  ", "end\"\n"),
                "units-dq-trailing-blanks-break" => ("key: \"", "x   \n  ", "end\"\n"),
                "units-dq-escaped-blank-break" => ("key: \"", "x\\ \n ", "end\"\n"),
                "units-dq-tab-break" => ("key: \"", "x\t\n \t", "end\"\n"),
                "units-sq-blank-lines" => ("key: '", "x\n\n\n  ", "end'\n"),
                "units-sq-quote-break" => ("key: '", "''\n  ", "end'\n"),
                "units-plain-blank-lines" => ("key: start\n  ", "x\n\n\n  ", "end\n"),
                "units-plain-trailing-blanks" => ("key: start\n  ", "x  \t \n  ", "end\n"),
                "units-folded-blank-lines" => ("key: >\n", "  x\n\n\n", "  end\n"),
                "units-folded-more-indented" => ("key: >\n", "  x\n    y\n\n", "  end\n"),
                "units-literal-blank-indented" => ("key: |\n", "  x\n      \n\n", "  end\n"),
                "units-flow-dq-escaped-break-blank-line" => ("[a, \"", "x\\\n\n ", "end\", b]\n"),
                _ => ("key: \"", "x ", "end\"\n"),
            };
            s.push_str(open);
            while s.len() < bytes {
                s.push_str(unit);
            }
            s.push_str(close);
        }
        "dq-escapes-folded" => {
            s.push_str("key: \"");
            while s.len() < bytes {
                s.push_str("text \\n \\x41 \\u00e9 more\n    ");
            }
            s.push_str("end\"\n");
        }
        "sq-long" => {
            s.push_str("key: '");
            while s.len() < bytes {
                s.push_str("it''s text \n    ");
            }
            s.push_str("end'\n");
        }
        "comment-lines" => {
            while s.len() < bytes {
                s.push_str("# a comment line of moderate length\n");
            }
            s.push_str("a: b\n");
        }
        "anchors-aliases" => {
            while s.len() < bytes {
                s.push_str(&format!("- &a{k} x\n- *a{k}\n"));
                k += 1;
            }
        }
        "nested-repeat" => {
            while s.len() < bytes {
                s.push_str("- - - - - - a\n          - b\n");
            }
        }
        "tagged-entries" => {
            while s.len() < bytes {
                s.push_str("- !!str a\n- !t b\n");
            }
        }
        "explicit-keys" => {
            while s.len() < bytes {
                s.push_str(&format!("? key{k}\n: value\n"));
                k += 1;
            }
        }
        "long-key-lines" => {
            while s.len() < bytes {
                s.push_str(&format!("k{k}"));
                for _ in 0..99 {
                    s.push_str("abcdefghij");
                }
                s.push_str(": v\n");
                k += 1;
            }
        }
        "flow-single-pairs" => {
            s.push('[');
            while s.len() < bytes {
                s.push_str(&format!("k{k}: v, \"q{k}\": [a], "));
                k += 1;
            }
            s.push_str("z]\n");
        }
        "nest100-per-line" => {
            while s.len() < bytes {
                for _ in 0..100 {
                    s.push_str("- ");
                }
                s.push_str("a\n");
            }
        }
        "indentless-sequences" => {
            while s.len() < bytes {
                s.push_str(&format!("k{k}:\n- a\n- b\n-\n"));
                k += 1;
            }
        }
        "flow-multiline-comments" => {
            s.push_str("[\n");
            while s.len() < bytes {
                s.push_str("  a, # comment\n  {b: c}, # another\n");
            }
            s.push_str("]\n");
        }
        "anchored-documents" => {
            while s.len() < bytes {
                s.push_str(&format!("--- &d{k} x\n"));
                k += 1;
            }
        }
        "tagged-directive-documents" => {
            while s.len() < bytes {
                s.push_str("%TAG !e! tag:e.com,2000:\n--- !e!t a\n...\n");
            }
        }
        "anchor-redefinitions" => {
            while s.len() < bytes {
                s.push_str("- &same x\n- *same\n");
            }
        }
        "aliases-in-every-document" => {
            while s.len() < bytes {
                s.push_str(&format!("--- [&p{k} a, *p{k}, &q{k} {{b: c}}, *q{k}]\n"));
                k += 1;
            }
        }
        "anchored-map-values" => {
            while s.len() < bytes {
                s.push_str(&format!("k{k}: &v{k} value\nr{k}: *v{k}\n"));
                k += 1;
            }
        }
        "documents-of-flow-collections" => {
            while s.len() < bytes {
                s.push_str("--- {a: [1, 2, {b: c}], d: \"e\"}\n");
            }
        }
        // ONE collection with thousands of entries in key position: everything the scanner and
        // the loader keep per pending key is held across the whole collection
        "wide-flowseq-key-in-flowseq" | "wide-flowseq-key-in-flowmap" | "wide-flowseq-key-in-flowmap-lines" | "wide-flowmap-key-in-flowmap" => {
            let (open, inner_open, item, inner_close, close) = match family {
                "wide-flowseq-key-in-flowseq" => ("[", "[", "a, ", "z]", ": v]\n"),
                "wide-flowseq-key-in-flowmap" => ("{", "[", "a, ", "z]", ": v}\n"),
                "wide-flowseq-key-in-flowmap-lines" => ("{", "[", "a,\n ", "z]", ": v}\n"),
                _ => ("{", "{", "a: b, ", "z: z}", ": v}\n"),
            };
            s.push_str(open);
            s.push_str(inner_open);
            while s.len() < bytes {
                s.push_str(item);
            }
            s.push_str(inner_close);
            s.push_str(close);
        }
        "wide-flowseq-key-explicit" => {
            s.push_str("? [");
            while s.len() < bytes {
                s.push_str("a, ");
            }
            s.push_str("z]\n: v\n");
        }
        "wide-blockseq-key-explicit" => {
            s.push_str("? - a\n");
            while s.len() < bytes {
                s.push_str("  - a\n");
            }
            s.push_str(": v\n");
        }
        "deep-nest-tab-run" | "deep-nest-blank-run" | "deep-nest-blank-lines" | "deep-nest-comment-lines" => {
            // a deep nest, then a long run of separation: whatever the scanner asks itself per
            // blank, TAB, empty line or comment must not depend on the nesting depth
            let depth = (bytes / 8).min(16_384);
            s.push_str("- ");
            for _ in 0..depth {
                s.push_str("- ");
            }
            s.push_str("&a");
            let unit = match family {
                "deep-nest-tab-run" => "\t",
                "deep-nest-blank-run" => " ",
                "deep-nest-blank-lines" => "\n",
                _ => "\n# c",
            };
            while s.len() < bytes {
                s.push_str(unit);
            }
            s.push_str(if family == "deep-nest-tab-run" || family == "deep-nest-blank-run" { " b\n" } else { "\n" });
        }
        "deep-nest-many-aliases" | "deep-nest-many-scalars" | "deep-nest-many-anchored" | "deep-nest-many-tagged" | "deep-nest-many-map-entries" => {
            // depth and leaf count both grow with the size: per-leaf work that depends on the
            // nesting depth shows up as quadratic
            let depth = (bytes / 8).min(16_384);
            s.push_str("- &a x\n- ");
            for _ in 0..depth {
                s.push_str("- ");
            }
            let map = family == "deep-nest-many-map-entries";
            s.push(if map { '{' } else { '[' });
            while s.len() < bytes {
                match family {
                    "deep-nest-many-aliases" => s.push_str("*a, "),
                    "deep-nest-many-scalars" => s.push_str("yy, "),
                    "deep-nest-many-anchored" => s.push_str(&format!("&b{k} y, ")),
                    "deep-nest-many-tagged" => s.push_str("!t y, "),
                    _ => s.push_str(&format!("k{k}: v, ")),
                }
                k += 1;
            }
            s.push_str(if map { "z: z}\n" } else { "z]\n" });
        }
        // a big collection is CLOSED, then many collections are opened: whatever is remembered
        // from the closed one (a size hint) must not be paid for at every level that follows
        "wide-flowseq-then-deep-nest" | "wide-blockseq-then-deep-nest" | "wide-flowmap-then-deep-nest" => {
            let depth = (bytes / 8).min(16_384);
            match family {
                "wide-flowseq-then-deep-nest" => {
                    s.push_str("- [");
                    while s.len() < bytes / 2 {
                        s.push_str("a, ");
                    }
                    s.push_str("z]\n");
                }
                "wide-flowmap-then-deep-nest" => {
                    s.push_str("- {");
                    while s.len() < bytes / 2 {
                        s.push_str(&format!("k{k}: v, "));
                        k += 1;
                    }
                    s.push_str("z: z}\n");
                }
                _ => {
                    s.push_str("- - a\n");
                    while s.len() < bytes / 2 {
                        s.push_str("  - a\n");
                    }
                }
            }
            s.push_str("- ");
            for _ in 0..depth {
                s.push_str(if family == "wide-flowmap-then-deep-nest" && s.len() % 4 == 0 { "- " } else { "- " });
            }
            s.push_str("x\n");
            while s.len() < bytes {
                s.push_str("- y\n");
            }
        }
        "wide-flowseq-then-deep-flow-nests" => {
            // the flow depth is capped: many 200-level nests one after the other
            s.push_str("- [");
            while s.len() < bytes / 2 {
                s.push_str("a, ");
            }
            s.push_str("z]\n");
            while s.len() < bytes {
                s.push_str("- ");
                for _ in 0..100 {
                    s.push_str("[{a: ");
                }
                s.push('x');
                for _ in 0..100 {
                    s.push_str("}]");
                }
                s.push('\n');
            }
        }
        "indent-map-chain-wide-payload-unresolvable-tag" | "indent-map-chain-wide-payload" => {
            // a chain of block mappings nested by indentation (its text grows with the square of
            // its depth, so the depth is the square root of a quarter of the size) above a wide
            // flow mapping; one leaf may carry a core tag its text does not resolve to
            let d = ((bytes / 4) as f64).sqrt() as usize;
            for l in 0..d {
                s.push_str(&" ".repeat(l));
                s.push_str("k:\n");
            }
            s.push_str(&" ".repeat(d));
            s.push_str("{");
            if family.ends_with("unresolvable-tag") {
                s.push_str("bad: !!int x, ");
            }
            while s.len() < bytes {
                s.push_str(&format!("k{k}: v, "));
                k += 1;
            }
            s.push_str("z: z}\n");
        }
        "distinct-tag-handle-per-document" => {
            while s.len() < bytes {
                s.push_str(&format!("%TAG !h{k}! tag:e.com,{k}:\n--- !h{k}!t a\n...\n"));
                k += 1;
            }
        }
        "many-tag-handles-one-document" => {
            // K handles declared, K nodes using one (the pinned parser keeps only the handle
            // declared last — a C16 matter, noted in DESIGN §12 — so all nodes use that one)
            let n = bytes / 40;
            for i in 0..n {
                s.push_str(&format!("%TAG !h{i}! tag:e.com,{i}:\n"));
            }
            s.push_str("---\n");
            for i in 0..n {
                let _ = i;
                s.push_str(&format!("- !h{}!t v\n", n - 1));
            }
        }
        "all-anchors-then-all-aliases" => {
            let n = bytes / 20;
            for i in 0..n {
                s.push_str(&format!("- &a{i} x\n"));
            }
            for i in (0..n).rev() {
                s.push_str(&format!("- *a{i}\n"));
            }
        }
        "big-anchor-document-then-many-documents" | "big-tag-document-then-many-documents" => {
            // whatever the first document leaves behind (table capacity) must not be paid for
            // again at every later document boundary
            if family == "big-anchor-document-then-many-documents" {
                while s.len() < bytes / 2 {
                    s.push_str(&format!("- &a{k} x\n"));
                    k += 1;
                }
            } else {
                while s.len() < bytes / 2 {
                    s.push_str(&format!("%TAG !h{k}! tag:e.com,{k}:\n"));
                    k += 1;
                }
                s.push_str(&format!("--- !h{}!t v\n", k - 1));
            }
            while s.len() < bytes {
                s.push_str("--- y\n");
            }
        }
        "sibling-sequence-keys" => {
            while s.len() < bytes {
                s.push_str(&format!("[{}, {}]: v\n", k / 100, k % 100));
                k += 1;
            }
        }
        "sibling-mapping-keys" => {
            while s.len() < bytes {
                s.push_str(&format!("{{a: {k}}}: v\n"));
                k += 1;
            }
        }
        "sibling-long-scalar-keys" => {
            while s.len() < bytes {
                s.push_str(&format!("a-rather-long-common-prefix-of-a-key-{k:08}: v\n"));
                k += 1;
            }
        }
        "reserved-directives" => {
            while s.len() < bytes {
                s.push_str(&format!("%FOO{} bar baz\n", k % 7));
                k += 1;
            }
            s.push_str("--- a\n");
        }
        "tag-directives" => {
            while s.len() < bytes {
                s.push_str(&format!("%TAG !h{k}! tag:x.y,2000:{k}/\n"));
                k += 1;
            }
            s.push_str("--- !h1!a b\n");
        }
        "document-end-markers" => {
            s.push_str("a\n");
            while s.len() < bytes {
                s.push_str("...\n");
            }
            s.push_str("b\n");
        }
        "blank-and-comment-prologue" => {
            while s.len() < bytes {
                s.push_str("\n   \n# c\n\t\n");
            }
            s.push_str("a: b\n");
        }
        "anchored-small-collections" => {
            while s.len() < bytes {
                s.push_str(&format!("- &c{k} [x, y, {{z: w}}]\n- *c{k}\n- *c{k}\n"));
                k += 1;
            }
        }
        _ => {
            while s.len() < bytes {
                s.push_str(&format!("k{k}: \u{4e2d}\u{6587}\u{e9}\u{1F600} text\r\n"));
                k += 1;
            }
        }
    }
    s
}

/// Child entry: consume the rendered family through one API. Prints a one-line summary.
pub fn child(family: &str, bytes: usize, api: &str) -> i32 {
    let text = if bytes == 0 { String::new() } else { render(family, bytes) };
    let api = api.to_string();
    let h = std::thread::Builder::new().stack_size(64 << 20).spawn(move || {
        crate::alloc::start();
        let r = api_run(&text, &api);
        let (req, peak) = crate::alloc::stop();
        match r {
            Ok(n) => format!("OK {n} alloc_requested={req} alloc_peak={peak}"),
            Err(e) => format!("ERR alloc_requested={req} alloc_peak={peak} {e}"),
        }
    });
    match h.map(std::thread::JoinHandle::join) {
        Ok(Ok(s)) => {
            println!("{}", s.chars().take(200).collect::<String>());
            0
        }
        _ => {
            println!("PANIC");
            3
        }
    }
}

fn api_run(text: &str, api: &str) -> Result<usize, String> {
    match api {
        "iter-str" => {
            let mut n = 0;
            for ev in Parser::new_from_str(text) {
                ev.map_err(|e| e.to_string())?;
                n += 1;
            }
            Ok(n)
        }
        "iter-buffered" => {
            let mut n = 0;
            for ev in Parser::new_from_iter(text.chars()) {
                ev.map_err(|e| e.to_string())?;
                n += 1;
            }
            Ok(n)
        }
        "load-yaml" => Yaml::load_from_str(text).map(|d| d.len()).map_err(|e| e.to_string()),
        "iter-keep-tags" => {
            let mut n = 0;
            for ev in Parser::new_from_str(text).keep_tags(true) {
                ev.map_err(|e| e.to_string())?;
                n += 1;
            }
            Ok(n)
        }
        "load-lazy" => {
            // deferred resolution: load without resolving scalars, then resolve the whole tree
            let mut p = Parser::new_from_str(text);
            let mut loader: saphyr::YamlLoader<'_, Yaml<'_>> = saphyr::YamlLoader::default();
            loader.early_parse(false);
            p.load(&mut loader, true).map_err(|e| e.to_string())?;
            let mut docs = loader.into_documents();
            for d in &mut docs {
                d.parse_representation_recursive();
            }
            Ok(docs.len())
        }
        _ => MarkedYaml::load_from_str(text).map(|d| d.len()).map_err(|e| e.to_string()),
    }
}

pub fn valgrind_available() -> bool {
    Command::new("valgrind")
        .arg("--version")
        .stdout(Stdio::null())
        .stderr(Stdio::null())
        .status()
        .map(|s| s.success())
        .unwrap_or(false)
}

/// Instructions retired by `simcheck c01-scale-child family bytes api`, and the child's summary.
pub fn measure(family: &str, bytes: usize, api: &str) -> Result<(u64, String), String> {
    let exe = std::env::current_exe().map_err(|e| e.to_string())?;
    let out = Command::new("valgrind")
        .args(["--tool=cachegrind", "--cache-sim=no", "--cachegrind-out-file=/dev/null"])
        .arg(exe)
        .args(["c01-scale-child", family, &bytes.to_string(), api])
        .stdin(Stdio::null())
        .output()
        .map_err(|e| e.to_string())?;
    let err = String::from_utf8_lossy(&out.stderr);
    let line = err.lines().find(|l| l.contains("I   refs:")).ok_or_else(|| format!("no instruction count in valgrind output: {}", err.lines().last().unwrap_or("")))?;
    let digits: String = line.split("I   refs:").nth(1).unwrap_or("").chars().filter(char::is_ascii_digit).collect();
    let n: u64 = digits.parse().map_err(|_| format!("bad count: {line}"))?;
    let so = String::from_utf8_lossy(&out.stdout).lines().last().unwrap_or("").to_string();
    if !out.status.success() {
        return Err(format!("child failed under valgrind: status {:?}: {so}", out.status));
    }
    Ok((n, so))
}

/// `(bytes requested, peak live bytes)` from a child summary.
pub fn alloc_of(summary: &str) -> (u64, u64) {
    let field = |name: &str| -> u64 {
        summary
            .split_whitespace()
            .find_map(|t| t.strip_prefix(name))
            .and_then(|v| v.parse().ok())
            .unwrap_or(0)
    };
    (field("alloc_requested="), field("alloc_peak="))
}

fn growth(v0: u64, v1: u64, v4: u64) -> f64 {
    (v4.saturating_sub(v0)) as f64 / (v1.saturating_sub(v0)).max(1) as f64
}

#[derive(Clone, Debug)]
pub struct Row {
    /// growth of bytes requested from the allocator, and of the peak of live bytes
    pub alloc_ratio: f64,
    pub peak_ratio: f64,
    pub alloc: [u64; 4],
    pub family: String,
    pub api: String,
    pub n: usize,
    pub i0: u64,
    pub i1: u64,
    pub i4: u64,
    pub ratio: f64,
    pub summary: String,
}

pub fn sizes(tier: &str) -> Vec<usize> {
    if tier == "thorough" {
        vec![65_536, 262_144]
    } else {
        vec![24_576]
    }
}

/// Run the scaling grid. Returns (exit code, evidence fragment).
pub fn run(cfg: &Config) -> (i32, J) {
    if !valgrind_available() {
        println!("C01 instruction clock: valgrind not available; linear-work scaling sub-check skipped");
        return (0, J::obj().with("available", J::Bool(false)));
    }
    let t0 = std::time::Instant::now();
    // baseline per API
    let mut base = std::collections::BTreeMap::new();
    for api in APIS {
        match measure("map-entries", 0, api) {
            Ok((i, s)) => {
                base.insert(api.to_string(), (i, alloc_of(&s)));
            }
            Err(e) => {
                eprintln!("harness error: instruction clock baseline: {e}");
                return (2, J::Null);
            }
        }
    }
    let mut jobs = Vec::new();
    // quick: the string iterator, the buffered iterator and one loader; thorough: also the marked loader
    let apis: &[&str] = if cfg.tier == "thorough" { &APIS } else { &APIS[..5] };
    for n in sizes(&cfg.tier) {
        for f in FAMILIES {
            for a in apis {
                // the scalar-unit families differ in the scanner only: one iterator, one loader
                if f.starts_with("units-") && !matches!(*a, "iter-str" | "load-yaml") {
                    continue;
                }
                // the parser option keep_tags(true) matters where tags are declared
                if *a == "iter-keep-tags" && !(f.contains("tag") || f.contains("directive")) {
                    continue;
                }
                jobs.push((f.to_string(), a.to_string(), n));
            }
        }
    }
    let jobs = Arc::new(jobs);
    let next = Arc::new(AtomicUsize::new(0));
    let rows: Arc<Mutex<Vec<Result<Row, String>>>> = Arc::new(Mutex::new(Vec::new()));
    let base = Arc::new(base);
    let mut hs = Vec::new();
    for _ in 0..cfg.jobs {
        let (jobs, next, rows, base) = (jobs.clone(), next.clone(), rows.clone(), base.clone());
        hs.push(std::thread::spawn(move || loop {
            let k = next.fetch_add(1, Ordering::SeqCst);
            if k >= jobs.len() {
                break;
            }
            let (f, a, n) = &jobs[k];
            let r = (|| {
                let (i1, s1) = measure(f, *n, a)?;
                let (i4, s4) = measure(f, *n * 4, a)?;
                let (i0, (a0, p0)) = base[a];
                let ratio = growth(i0, i1, i4);
                let ((a1, p1), (a4, p4)) = (alloc_of(&s1), alloc_of(&s4));
                // a consumer that keeps nothing (the iterators) has a constant peak: growth of
                // a difference of a few hundred bytes is noise, not a trend
                let peak_ratio = if p4.saturating_sub(p0) < 65_536 { 1.0 } else { growth(p0, p1, p4) };
                let alloc_ratio = if a4.saturating_sub(a0) < 65_536 { 1.0 } else { growth(a0, a1, a4) };
                Ok(Row { family: f.clone(), api: a.clone(), n: *n, i0, i1, i4, ratio, summary: s1, alloc_ratio, peak_ratio, alloc: [a1, a4, p1, p4] })
            })();
            rows.lock().unwrap().push(r);
        }));
    }
    for h in hs {
        let _ = h.join();
    }
    let rows = rows.lock().unwrap().clone();
    let mut ok_rows: Vec<Row> = Vec::new();
    for r in rows {
        match r {
            Ok(r) => ok_rows.push(r),
            Err(e) => {
                eprintln!("harness error: instruction clock: {e}");
                return (2, J::Null);
            }
        }
    }
    ok_rows.sort_by(|a, b| b.ratio.partial_cmp(&a.ratio).unwrap_or(std::cmp::Ordering::Equal));
    let worst = ok_rows.first().cloned();
    let mut exit = 0;
    let mut vj = J::Null;
    if let Some(w) = &worst {
        if w.ratio > RATIO_LIMIT {
            let class = "SUPERLINEAR(instruction-clock)";
            let detail = format!(
                "family {} through {}: {} instructions at {} bytes, {} at {} bytes (empty input: {}): growth x{:.2} for x4 input, limit x{RATIO_LIMIT}; linear work gives x4",
                w.family, w.api, w.i1, w.n, w.i4, w.n * 4, w.i0, w.ratio
            );
            let case = Case { prop: "C01".into(), gen: "scale".into(), shape: w.family.clone(), depth: w.n, api: w.api.clone(), ..Case::default() };
            let path = format!("{}/replays/C01-{}-scale-{}-{}-{}.json", cfg.verif_dir, cfg.seed, w.family, w.api, w.n);
            let mut rj = crate::batch::replay_json(cfg, 0, &case, class, &detail, None, 0);
            // C01 cases print text fields; add the scale fields explicitly
            rj.set("case", J::obj().with("property", J::str("C01")).with("generator", J::str("scale")).with("shape", J::str(&w.family)).with("depth", J::int(w.n)).with("api", J::str(&w.api)));
            let _ = std::fs::create_dir_all(format!("{}/replays", cfg.verif_dir));
            if std::fs::write(&path, rj.to_pretty()).is_err() {
                eprintln!("harness error: cannot write {path}");
                return (2, J::Null);
            }
            println!("violation class={class} detail={detail}");
            for r in ok_rows.iter().skip(1).take(8).filter(|r| r.ratio > RATIO_LIMIT) {
                println!("also: {} through {}: x{:.2}", r.family, r.api, r.ratio);
            }
            println!("VIOLATION property=C01 replay={path}");
            vj = J::obj().with("class", J::str(class)).with("detail", J::str(&detail)).with("replay", J::str(&path));
            exit = 1;
        }
    }
    // The allocation clock: bytes requested from the allocator and the peak of live bytes must
    // grow like the text too (reservations that are never touched cost no instructions).
    if exit == 0 {
        let worst_alloc = ok_rows
            .iter()
            .max_by(|a, b| a.alloc_ratio.max(a.peak_ratio).partial_cmp(&b.alloc_ratio.max(b.peak_ratio)).unwrap_or(std::cmp::Ordering::Equal))
            .cloned();
        if let Some(w) = worst_alloc.filter(|w| w.alloc_ratio.max(w.peak_ratio) > RATIO_LIMIT) {
            let class = "SUPERLINEAR(allocation-clock)";
            let detail = format!(
                "family {} through {}: {} bytes requested (peak {} live) at {} bytes of input, {} (peak {}) at {} bytes: growth x{:.2} requested, x{:.2} peak for x4 input, limit x{RATIO_LIMIT}",
                w.family, w.api, w.alloc[0], w.alloc[2], w.n, w.alloc[1], w.alloc[3], w.n * 4, w.alloc_ratio, w.peak_ratio
            );
            let case = Case { prop: "C01".into(), gen: "scale".into(), shape: w.family.clone(), depth: w.n, api: w.api.clone(), ..Case::default() };
            let path = format!("{}/replays/C01-{}-scale-{}-{}-{}.json", cfg.verif_dir, cfg.seed, w.family, w.api, w.n);
            let mut rj = crate::batch::replay_json(cfg, 0, &case, class, &detail, None, 0);
            rj.set("case", J::obj().with("property", J::str("C01")).with("generator", J::str("scale")).with("shape", J::str(&w.family)).with("depth", J::int(w.n)).with("api", J::str(&w.api)));
            let _ = std::fs::create_dir_all(format!("{}/replays", cfg.verif_dir));
            if std::fs::write(&path, rj.to_pretty()).is_err() {
                eprintln!("harness error: cannot write {path}");
                return (2, J::Null);
            }
            println!("violation class={class} detail={detail}");
            println!("VIOLATION property=C01 replay={path}");
            vj = J::obj().with("class", J::str(class)).with("detail", J::str(&detail)).with("replay", J::str(&path));
            exit = 1;
        }
    }
    // Alias expansion: work must grow like the text (x2.1 from 3 to 5 levels), not like the
    // expanded tree (x81). Listed (family, API) pairs are known findings, anything else a violation.
    let known = match crate::c11::load_known(&cfg.verif_dir, "C01") {
        Ok(k) => k,
        Err(e) => {
            eprintln!("harness error: {e}");
            return (2, J::Null);
        }
    };
    // Scenarios whose size parameter is a number of levels, not bytes.
    let specials: [(&str, usize, usize, &str); 3] = [
        ("alias-fanout", 150, 600, "one anchored sequence of N items aliased N times"),
        ("alias-expansion", 3, 5, "work must grow like the text, not like the expanded tree"),
        ("nested-complex-keys", 300, 1200, "a chain of mappings used as mapping keys: inserting each key hashes its whole subtree"),
    ];
    let mut alias_rows = Vec::new();
    let mut known_hit = Vec::new();
    // measure all level-scaled scenarios in parallel first
    let special_jobs: Vec<(usize, &str)> = specials.iter().enumerate().flat_map(|(k, _)| SPECIAL_APIS.iter().map(move |a| (k, *a))).collect();
    let special_jobs = Arc::new(special_jobs);
    let special_next = Arc::new(AtomicUsize::new(0));
    let special_out: Arc<Mutex<Vec<(usize, String, Result<(u64, u64), String>)>>> = Arc::new(Mutex::new(Vec::new()));
    let spec_params: Arc<Vec<(String, usize, usize)>> = Arc::new(specials.iter().map(|s| (s.0.to_string(), s.1, s.2)).collect());
    let mut hs = Vec::new();
    for _ in 0..cfg.jobs.min(special_jobs.len()) {
        let (jobs, next, out, params) = (special_jobs.clone(), special_next.clone(), special_out.clone(), spec_params.clone());
        hs.push(std::thread::spawn(move || loop {
            let k = next.fetch_add(1, Ordering::SeqCst);
            if k >= jobs.len() {
                break;
            }
            let (si, api) = jobs[k];
            let (fam, l1, l2) = &params[si];
            let r = (|| -> Result<(u64, u64), String> { Ok((measure(fam, *l1, api)?.0, measure(fam, *l2, api)?.0)) })();
            out.lock().unwrap().push((si, api.to_string(), r));
        }));
    }
    for h in hs {
        let _ = h.join();
    }
    let special_out = special_out.lock().unwrap().clone();
    for (si, (family, l1, l2, what)) in specials.into_iter().enumerate() {
        let byte_growth = render(family, l2).len() as f64 / render(family, l1).len() as f64;
        for api in SPECIAL_APIS {
            let r = special_out.iter().find(|x| x.0 == si && x.1 == api).map(|x| x.2.clone()).unwrap_or_else(|| Err("missing measurement".into()));
            let (i1, i2) = match r {
                Ok(v) => v,
                Err(e) => {
                    eprintln!("harness error: instruction clock: {e}");
                    return (2, J::Null);
                }
            };
            let i0 = base[api].0;
            let growth = i2.saturating_sub(i0) as f64 / i1.saturating_sub(i0).max(1) as f64;
            let superlinear = growth > byte_growth * (RATIO_LIMIT / 4.0);
            alias_rows.push(
                J::obj()
                    .with("family", J::str(family))
                    .with("api", J::str(api))
                    .with("levels", J::Arr(vec![J::int(l1), J::int(l2)]))
                    .with("instructions", J::Arr(vec![J::int(i1), J::int(i2)]))
                    .with("growth", J::Float(growth))
                    .with("text_growth", J::Float(byte_growth))
                    .with("superlinear", J::Bool(superlinear)),
            );
            if superlinear {
                let key = format!("{family}/{api}");
                if let Some(k) = known.iter().find(|k| k.key == key) {
                    println!("KNOWN-FINDING: property=C01 key={key} work grows x{growth:.1} while the text grows x{byte_growth:.2} ({l1} -> {l2} levels): {}", k.desc);
                    known_hit.push(key);
                } else if exit == 0 {
                    let class = "SUPERLINEAR(instruction-clock)";
                    let detail = format!("{family} ({what}) through {api}: {i1} instructions at {l1} levels, {i2} at {l2} levels: growth x{growth:.1} while the text grows x{byte_growth:.2}; key {key} is not a listed known finding");
                    let path = format!("{}/replays/C01-{}-scale-{}-{}.json", cfg.verif_dir, cfg.seed, family, api);
                    let mut rj = crate::batch::replay_json(cfg, 0, &Case::default(), class, &detail, None, 0);
                    rj.set("case", J::obj().with("property", J::str("C01")).with("generator", J::str("scale")).with("shape", J::str(family)).with("depth", J::int(l1)).with("api", J::str(api)));
                    let _ = std::fs::create_dir_all(format!("{}/replays", cfg.verif_dir));
                    if std::fs::write(&path, rj.to_pretty()).is_err() {
                        eprintln!("harness error: cannot write {path}");
                        return (2, J::Null);
                    }
                    println!("violation class={class} detail={detail}");
                    println!("VIOLATION property=C01 replay={path}");
                    vj = J::obj().with("class", J::str(class)).with("detail", J::str(&detail)).with("replay", J::str(&path));
                    exit = 1;
                }
            }
        }
    }
    let wall = t0.elapsed().as_secs_f64();
    let max_ratio = worst.as_ref().map_or(0.0, |w| w.ratio);
    println!(
        "C01 instruction clock: {} scenarios ({} families x {} APIs x {:?} bytes, each at n and 4n) under valgrind in {:.1}s; worst growth x{:.2} ({}), limit x{RATIO_LIMIT}; allocation clock: worst growth x{:.2} requested, x{:.2} peak",
        ok_rows.len(),
        FAMILIES.len(),
        apis.len(),
        sizes(&cfg.tier),
        wall,
        max_ratio,
        worst.as_ref().map_or(String::new(), |w| format!("{} / {}", w.family, w.api)),
        ok_rows.iter().map(|r| r.alloc_ratio).fold(0.0f64, f64::max),
        ok_rows.iter().map(|r| r.peak_ratio).fold(0.0f64, f64::max)
    );
    let mut ev = J::obj();
    ev.set("available", J::Bool(true));
    ev.set("clock", J::str("instructions retired, counted by valgrind cachegrind (--cache-sim=no) in a child process; exactly repeatable"));
    ev.set("oracle", J::str("(I(4n) - I(empty)) / (I(n) - I(empty)) <= 6 for every (family, API, n)"));
    ev.set("scenarios", J::int(ok_rows.len()));
    ev.set("sizes_bytes", J::Arr(sizes(&cfg.tier).iter().map(|s| J::int(*s)).collect()));
    ev.set("worst_growth_for_x4_input", J::Float(max_ratio));
    ev.set(
        "worst_rows",
        J::Arr(
            ok_rows
                .iter()
                .take(6)
                .map(|r| {
                    J::obj()
                        .with("family", J::str(&r.family))
                        .with("api", J::str(&r.api))
                        .with("bytes", J::int(r.n))
                        .with("instructions_n", J::int(r.i1))
                        .with("instructions_4n", J::int(r.i4))
                        .with("growth", J::Float(r.ratio))
                        .with("child", J::str(&r.summary))
                })
                .collect(),
        ),
    );
    let max_alloc = ok_rows.iter().map(|r| r.alloc_ratio).fold(0.0f64, f64::max);
    let max_peak = ok_rows.iter().map(|r| r.peak_ratio).fold(0.0f64, f64::max);
    ev.set(
        "allocation_clock",
        J::obj()
            .with("clock", J::str("a counting global allocator in the child: bytes requested (alloc + realloc) and peak of live bytes during the library call; exact and repeatable"))
            .with("oracle", J::str("growth of both <= 6 for x4 input (differences below 64 KiB count as constant)"))
            .with("worst_growth_requested", J::Float(max_alloc))
            .with("worst_growth_peak", J::Float(max_peak)),
    );
    ev.set("level_scaled_scenarios", J::Arr(alias_rows));
    ev.set("known_findings_reproduced", J::Arr(known_hit.iter().map(|k| J::str(k)).collect()));
    ev.set("wall_s", J::Float(wall));
    if vj != J::Null {
        ev.set("violation", vj);
    }
    (exit, ev)
}

pub fn replay(case: &Case, path: &str) -> i32 {
    if !valgrind_available() {
        eprintln!("harness error: valgrind not available");
        return 2;
    }
    if case.shape == "alias-expansion" || case.shape == "nested-complex-keys" || case.shape == "alias-fanout" {
        let l2 = if case.shape == "alias-expansion" { case.depth + 2 } else { case.depth * 4 };
        let r = (|| -> Result<(u64, u64, u64), String> {
            Ok((measure("map-entries", 0, &case.api)?.0, measure(&case.shape, case.depth, &case.api)?.0, measure(&case.shape, l2, &case.api)?.0))
        })();
        return match r {
            Err(e) => {
                eprintln!("harness error: {e}");
                2
            }
            Ok((i0, i1, i2)) => {
                let growth = i2.saturating_sub(i0) as f64 / i1.saturating_sub(i0).max(1) as f64;
                let byte_growth = render(&case.shape, l2).len() as f64 / render(&case.shape, case.depth).len() as f64;
                if growth > byte_growth * (RATIO_LIMIT / 4.0) {
                    println!("violation class=SUPERLINEAR(instruction-clock) detail={} through {}: growth x{growth:.1} for text growth x{byte_growth:.2}", case.shape, case.api);
                    println!("VIOLATION property=C01 replay={path}");
                    1
                } else {
                    println!("replay of {path}: no violation (growth x{growth:.2} for text growth x{byte_growth:.2})");
                    0
                }
            }
        };
    }
    let r = (|| -> Result<(u64, u64, u64, f64, f64), String> {
        let (i0, s0) = measure(&case.shape, 0, &case.api)?;
        let (i1, s1) = measure(&case.shape, case.depth, &case.api)?;
        let (i4, s4) = measure(&case.shape, case.depth * 4, &case.api)?;
        let ((a0, p0), (a1, p1), (a4, p4)) = (alloc_of(&s0), alloc_of(&s1), alloc_of(&s4));
        let ar = if a4.saturating_sub(a0) < 65_536 { 1.0 } else { growth(a0, a1, a4) };
        let pr = if p4.saturating_sub(p0) < 65_536 { 1.0 } else { growth(p0, p1, p4) };
        Ok((i0, i1, i4, ar, pr))
    })();
    match r {
        Err(e) => {
            eprintln!("harness error: {e}");
            2
        }
        Ok((i0, i1, i4, ar, pr)) => {
            let ratio = (i4.saturating_sub(i0)) as f64 / (i1.saturating_sub(i0)).max(1) as f64;
            if ratio <= RATIO_LIMIT && ar.max(pr) > RATIO_LIMIT {
                println!(
                    "violation class=SUPERLINEAR(allocation-clock) detail=family {} through {} at {} and {} bytes: growth x{ar:.2} of bytes requested, x{pr:.2} of peak live bytes, limit x{RATIO_LIMIT}",
                    case.shape,
                    case.api,
                    case.depth,
                    case.depth * 4
                );
                println!("VIOLATION property=C01 replay={path}");
                1
            } else if ratio > RATIO_LIMIT {
                println!(
                    "violation class=SUPERLINEAR(instruction-clock) detail=family {} through {}: {i1} instructions at {} bytes, {i4} at {} bytes (empty: {i0}): growth x{ratio:.2}, limit x{RATIO_LIMIT}",
                    case.shape,
                    case.api,
                    case.depth,
                    case.depth * 4
                );
                println!("VIOLATION property=C01 replay={path}");
                1
            } else {
                println!("replay of {path}: no violation (growth x{ratio:.2} for x4 input)");
                0
            }
        }
    }
}
