//! Minimisation: shrink environment, schedule, tape and input while the *same violation class*
//! persists. Every candidate is a complete `Case`, executed in replay mode (the PRNG is never
//! consulted), so the minimised case replays exactly.

use crate::batch::execute;
use crate::case::{Case, Client};
use crate::inputs::{InputKind, Policy};

pub struct Min<'a> {
    class: &'a str,
    pub steps: u64,
    pub best: Case,
    pub detail: String,
    limit: u64,
}

impl Min<'_> {
    fn try_case(&mut self, c: &Case) -> bool {
        if self.steps >= self.limit {
            return false;
        }
        self.steps += 1;
        let o = execute(c, None);
        match o.violation {
            Some((cl, d)) if cl == self.class => {
                self.best = c.clone();
                self.detail = d;
                true
            }
            _ => false,
        }
    }

    fn ddmin<T: Clone>(&mut self, items: Vec<T>, build: &dyn Fn(&Case, &[T]) -> Case) -> Vec<T> {
        let mut cur = items;
        let mut n = 2usize;
        while cur.len() >= 2 && self.steps < self.limit {
            let len = cur.len();
            let chunk = len.div_ceil(n);
            let mut reduced = false;
            let mut start = 0;
            while start < len {
                let end = (start + chunk).min(len);
                let mut cand: Vec<T> = Vec::with_capacity(len - (end - start));
                cand.extend_from_slice(&cur[..start]);
                cand.extend_from_slice(&cur[end..]);
                let c = build(&self.best, &cand);
                if self.try_case(&c) {
                    cur = cand;
                    n = (n - 1).max(2);
                    reduced = true;
                    break;
                }
                start = end;
            }
            if !reduced {
                if n >= len {
                    break;
                }
                n = (n * 2).min(len);
            }
        }
        if cur.len() == 1 {
            let c = build(&self.best, &[]);
            if self.try_case(&c) {
                cur.clear();
            }
        }
        cur
    }
}

pub fn minimise(case: &Case, class: &str) -> (Case, String, u64) {
    // large inputs cost milliseconds per execution: bound the effort
    let size = case.text.len().max(case.bytes.len());
    let limit = if size > 200_000 { 300 } else if size > 20_000 { 3_000 } else { 30_000 };
    let mut m = Min { class, steps: 0, best: case.clone(), detail: String::new(), limit };
    // Establish the detail (and confirm the failure replays from the recorded tape).
    if !m.try_case(case) {
        return (case.clone(), "(violation did not reproduce from the recorded tape; reported unminimised)".into(), m.steps);
    }

    // 1. environment -> plainest that still fails
    if m.best.eof_at.is_some() {
        // turn the early EOF into an explicit truncated text first
        let mut c = m.best.clone();
        let e = c.eof_at.take().unwrap();
        c.text = c.text.chars().take(e).collect();
        if !m.try_case(&c) {
            // keep eof_at; the fault itself matters
        }
    }
    if !m.best.extra_inputs.is_empty() {
        let mut c = m.best.clone();
        c.extra_inputs.clear();
        m.try_case(&c);
    }
    if m.best.prop == "C01" || m.best.prop == "C17" {
        for k in [InputKind::Str, InputKind::Buffered, InputKind::Ring(16, Policy::PushBack)] {
            if m.best.input == k {
                break;
            }
            let mut c = m.best.clone();
            c.input = k;
            if m.try_case(&c) {
                break;
            }
        }
        if let InputKind::Ring(cap, Policy::PerCall) = m.best.input {
            for p in [Policy::PushBack, Policy::Leave] {
                let mut c = m.best.clone();
                c.input = InputKind::Ring(cap, p);
                if m.try_case(&c) {
                    break;
                }
            }
        }
    }
    if m.best.prop == "C01" && m.best.client != Client::Iterate {
        let mut c = m.best.clone();
        c.client = Client::Iterate;
        m.try_case(&c);
    }
    if m.best.keep_tags {
        let mut c = m.best.clone();
        c.keep_tags = false;
        m.try_case(&c);
    }
    if m.best.extra_calls > 0 {
        let mut c = m.best.clone();
        c.extra_calls = 0;
        m.try_case(&c);
    }
    // 2. tape: truncate, then zero entries
    if !m.best.tape.is_empty() {
        let mut c = m.best.clone();
        c.tape.clear();
        if !m.try_case(&c) {
            let t = m.best.tape.clone();
            let kept = m.ddmin_tape(t);
            let _ = kept;
        }
    }
    // 3. schedule: remove peeks
    if m.best.peeks.iter().any(|p| *p > 0) {
        let mut c = m.best.clone();
        c.peeks.iter_mut().for_each(|p| *p = 0);
        if !m.try_case(&c) {
            for k in 0..m.best.peeks.len() {
                if m.best.peeks[k] > 0 {
                    let mut c = m.best.clone();
                    c.peeks[k] = 0;
                    if !m.try_case(&c) && m.best.peeks[k] > 1 {
                        let mut c = m.best.clone();
                        c.peeks[k] = 1;
                        m.try_case(&c);
                    }
                }
            }
        }
    }
    // 4. input: ddmin over lines, then characters (bytes for C18)
    if m.best.prop == "C18" && !m.best.fault_free {
        let bytes = m.best.bytes.clone();
        m.ddmin(bytes, &|b, xs: &[u8]| {
            let mut c = b.clone();
            c.bytes = xs.to_vec();
            c
        });
    } else {
        let lines: Vec<String> = split_keep(&m.best.text);
        if lines.len() > 1 {
            m.ddmin(lines, &|b, xs: &[String]| {
                let mut c = b.clone();
                c.text = xs.concat();
                c
            });
        }
        let chars: Vec<char> = m.best.text.chars().collect();
        if chars.len() <= 4000 {
            m.ddmin(chars, &|b, xs: &[char]| {
                let mut c = b.clone();
                c.text = xs.iter().collect();
                c
            });
        }
        // simplify characters: replace each non-'a' alphanumeric with 'a'
        let chars: Vec<char> = m.best.text.chars().collect();
        if chars.len() <= 200 {
            for k in 0..chars.len() {
                let cur: Vec<char> = m.best.text.chars().collect();
                if k < cur.len() && cur[k] != 'a' && (cur[k].is_alphanumeric() || !cur[k].is_ascii()) {
                    let mut c = m.best.clone();
                    let mut v = cur.clone();
                    v[k] = 'a';
                    c.text = v.into_iter().collect();
                    m.try_case(&c);
                }
            }
        }
    }
    // final: trailing peeks beyond need
    while m.best.peeks.last() == Some(&0) {
        m.best.peeks.pop();
    }
    let steps = m.steps;
    (m.best, m.detail, steps)
}

impl Min<'_> {
    fn ddmin_tape(&mut self, tape: Vec<u32>) -> Vec<u32> {
        // truncate from the end by halves
        let mut cur = tape;
        let mut cut = cur.len() / 2;
        while cut >= 1 && self.steps < self.limit {
            if cur.len() > cut {
                let cand: Vec<u32> = cur[..cur.len() - cut].to_vec();
                let mut c = self.best.clone();
                c.tape = cand.clone();
                if self.try_case(&c) {
                    cur = cand;
                    continue;
                }
            }
            cut /= 2;
        }
        // zero single entries
        if cur.len() <= 256 {
            for k in 0..cur.len() {
                if cur[k] != 0 {
                    let mut cand = cur.clone();
                    cand[k] = 0;
                    let mut c = self.best.clone();
                    c.tape = cand.clone();
                    if self.try_case(&c) {
                        cur = cand;
                    }
                }
            }
        }
        cur
    }
}

fn split_keep(s: &str) -> Vec<String> {
    let mut v = Vec::new();
    let mut cur = String::new();
    for c in s.chars() {
        cur.push(c);
        if c == '\n' {
            v.push(std::mem::take(&mut cur));
        }
    }
    if !cur.is_empty() {
        v.push(cur);
    }
    v
}
