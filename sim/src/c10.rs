//! C10 — all input back-ends behave identically.
//!
//! One run: one text (optionally ended early at the source), parsed by plain iteration through
//! the reference (`Parser::new_from_str`, no wrapper) and through every candidate environment on
//! the far side of the `Input` seam. Oracle: exact equality of events, spans and error.

use crate::case::{Case, Outcome};
use crate::clock::{self, Probe};
use crate::gen::{Corpus, Gen, Swarm};
use crate::inputs::{InputKind, Policy};
use crate::rng::{SplitMix64, Tape};
use crate::trace::{first_divergence, reference_trace, with_parser, End, IterateAll, Prepared};

pub const FIXED_CANDIDATES: [InputKind; 17] = [
    InputKind::BufferedBare,
    InputKind::MeteredStr,
    InputKind::Str,
    InputKind::Buffered,
    InputKind::Ring(8, Policy::PushBack),
    InputKind::Ring(8, Policy::Leave),
    InputKind::Ring(16, Policy::PushBack),
    InputKind::Ring(16, Policy::Leave),
    InputKind::Ring(16, Policy::PerCall),
    InputKind::Ring(64, Policy::PushBack),
    InputKind::Ring(64, Policy::Leave),
    InputKind::Ring(128, Policy::PushBack),
    InputKind::Ring(128, Policy::Leave),
    InputKind::Slice(8),
    InputKind::Slice(16),
    InputKind::Slice(64),
    InputKind::Slice(1000),
];


pub fn work_budget(n_chars: usize) -> u64 {
    200 * (n_chars as u64 + 16)
}
pub fn event_budget(n_chars: usize) -> usize {
    8 * (n_chars + 4)
}

pub fn generate(run_seed: u64, corpus: &Corpus, sw: &Swarm, i: u64, exhaustive: u64) -> Case {
    if i < exhaustive {
        // first the context x follower cases, then the token strings, then the character strings
        // first every regular input family at a size where its repeated thing is counted past 2^16
        let nf = (crate::scale::FAMILIES.len() + crate::gen::COUNT_KINDS.len()) as u64;
        let i = match crate::batch::spread(i, nf) {
            Ok(k) => {
                let k = k as usize;
                let text = if k < crate::scale::FAMILIES.len() {
                    crate::scale::render(crate::scale::FAMILIES[k], 700_000)
                } else {
                    crate::gen::count_doc(crate::gen::COUNT_KINDS[k - crate::scale::FAMILIES.len()], 66_000)
                };
                return Case { prop: "C10".into(), gen: "X-family-mega".into(), text, ..Case::default() };
            }
            Err(j) => j,
        };
        let exhaustive = exhaustive - nf;
        // then the dedent cases
        let dd = crate::gen::dedent_count();
        if i < dd {
            return Case { prop: "C10".into(), gen: "X-dedent".into(), text: crate::gen::nth_dedent(i), ..Case::default() };
        }
        let (i, exhaustive) = (i - dd, exhaustive - dd);
        let ctx = crate::gen::count_context_cases();
        if i < ctx {
            return Case { prop: "C10".into(), gen: "X-context-follower".into(), text: crate::gen::nth_context_case(i), ..Case::default() };
        }
        let (i, exhaustive) = (i - ctx, exhaustive - ctx);
        let toks = exhaustive - crate::gen::count_strings(16, if exhaustive > 1_000_000 { 5 } else { 4 });
        return if i < toks {
            Case { prop: "C10".into(), gen: "X-tokens".into(), text: crate::gen::nth_token_string(i), ..Case::default() }
        } else {
            Case {
                prop: "C10".into(),
                gen: "X-exhaustive".into(),
                text: crate::gen::nth_string(&crate::gen::C10_ALPHABET, i - toks),
                ..Case::default()
            }
        };
    }
    let mut g = Gen::new(run_seed, corpus, sw);
    let (gname, text) = g.text();
    let mut r = SplitMix64::new(run_seed ^ 0x5151_5151);
    let n = text.chars().count();
    let eof_at = if n > 0 && r.chance(1, 4) { Some(r.usize(n)) } else { None };
    let extra_inputs = vec![
        InputKind::Ring(Gen::draw_capacity(&mut r), Policy::PerCall),
        InputKind::Ring(Gen::draw_capacity(&mut r), *r.pick(&[Policy::PushBack, Policy::Leave])),
        InputKind::Slice(Gen::draw_capacity(&mut r)),
    ];
    Case {
        prop: "C10".into(),
        gen: gname.into(),
        text,
        eof_at,
        extra_inputs,
        keep_tags: r.chance(1, 8),
        ..Case::default()
    }
}

pub fn execute(case: &Case, record_seed: Option<u64>) -> Outcome {
    let prep = Prepared::new(&case.text, case.eof_at, case.keep_tags);
    let n = prep.n_chars;
    let tape = match record_seed {
        Some(s) => Tape::record(s),
        None => Tape::replay(case.tape.clone()),
    };
    crate::trace::nested_init();
    clock::begin(u64::MAX, tape);
    let reference = reference_trace(&prep, event_budget(n));
    let mut out = Outcome {
        n_chars: n as u64,
        events: reference.evs.len() as u64,
        ..Outcome::default()
    };
    match &reference.end {
        End::Complete => clock::probe(Probe::CompleteRuns),
        End::Err(_) => clock::probe(Probe::ErrorRuns),
        _ => {}
    }
    let mut total_ticks = 0u64;
    if reference.end.is_bad() {
        // The reference itself crashed or spun: that is C01's finding, not a back-end divergence.
        out.summary = format!("reference {}", reference.end.describe());
    } else {
        // the megabyte cases go through one candidate of each kind
        let mega = [InputKind::BufferedBare, InputKind::MeteredStr, InputKind::Str, InputKind::Ring(16, Policy::PerCall), InputKind::Ring(128, Policy::Leave), InputKind::Slice(64)];
        let fixed: &[InputKind] = if case.gen == "X-family-mega" { &mega } else { &FIXED_CANDIDATES };
        for kind in fixed.iter().chain(case.extra_inputs.iter()) {
            clock::rearm(work_budget(n));
            clock::fp_mix(0xC10);
            clock::arm_nested();
            let t = with_parser(*kind, &prep, IterateAll { max_events: event_budget(n) });
            clock::disarm_nested();
            total_ticks += clock::ticks();
            out.sub_runs += 1;
            if let Some(msg) = clock::take_nested_wrong() {
                out.violation = Some(("WRONG-RESULT(nested-parse)".into(), format!("candidate {}: {msg}", kind.describe())));
                break;
            }
            if let Some(d) = first_divergence(&reference, &t) {
                let field = d.split('@').next().unwrap_or("?").split(':').next().unwrap_or("?").to_string();
                out.violation = Some((
                    format!("DIVERGE({field})"),
                    format!("candidate {}: {d}", kind.describe()),
                ));
                break;
            }
        }
        out.summary = format!("{} events then {}", reference.evs.len(), reference.end.describe());
    }
    out.ticks = total_ticks;
    out.fingerprint = clock::fingerprint();
    out.nontrivial = reference.evs.len() >= 4 || clock::run_faults() >= 1;
    out.tape = clock::end().rec;
    out
}
