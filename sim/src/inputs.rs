//! Simulated components on the far side of the `Input` seam (S1) and the char-source seam (S2).
//!
//! * `SimSource`  — fused `char` iterator with an early-EOF fault.
//! * `Ticking<I>` — step-clock wrapper around a *real* back-end (`StrInput`, `BufferedInput`),
//!                  forwarding every trait method (so the real overrides run).
//! * `SimRing`    — exact-fill ring buffer with `BufferedInput` semantics at any capacity >= 8,
//!                  implementing only the required methods (all provided methods run as shipped).
//! * `SimSlice`   — `StrInput`-style virtual buffer at any capacity, required methods only.

use crate::clock::{self, probe, tick_op, ContractViolation, Probe};
use saphyr_parser::input::SkipTabs;
use saphyr_parser::Input;
use std::collections::VecDeque;
use std::rc::Rc;

fn is_breakz(c: char) -> bool {
    c == '\0' || c == '\n' || c == '\r'
}

// ---------------------------------------------------------------------------------------------

/// S2: a fused char source that may end early.
pub struct SimSource {
    chars: Rc<[char]>,
    pos: usize,
    end: usize,
    early: bool,
    /// What `size_hint` reports (drawn once per source): every answer the Iterator contract
    /// allows, from "no idea" to exact.
    hint: u32,
}

impl SimSource {
    pub fn new(chars: Rc<[char]>, eof_at: Option<usize>) -> Self {
        let n = chars.len();
        let end = eof_at.map_or(n, |e| e.min(n));
        SimSource {
            chars,
            pos: 0,
            end,
            early: end < n,
            hint: crate::clock::choose(6),
        }
    }
}

impl Iterator for SimSource {
    type Item = char;
    fn next(&mut self) -> Option<char> {
        tick_op(40, 0);
        if self.pos < self.end {
            let c = self.chars[self.pos];
            self.pos += 1;
            Some(c)
        } else {
            if self.early {
                self.early = false;
                probe(Probe::SourceEofEarly);
            }
            None
        }
    }
    fn size_hint(&self) -> (usize, Option<usize>) {
        let left = self.end - self.pos.min(self.end);
        match self.hint {
            0 => (0, None),
            1 => (left, Some(left)),
            2 => (0, Some(left)),
            3 => (0, Some(usize::MAX)),
            4 => (left.min(1), None),
            _ => (left / 2, Some(left.saturating_mul(2) + 7)),
        }
    }
}

// ---------------------------------------------------------------------------------------------

/// Step-clock wrapper around a real back-end. Every method, required or provided, is forwarded.
pub struct Ticking<I: Input>(pub I);

impl<I: Input> Input for Ticking<I> {
    fn lookahead(&mut self, count: usize) {
        tick_op(1, count as u64);
        if count == self.0.bufmaxlen() {
            probe(Probe::LookaheadFullCap);
        }
        self.0.lookahead(count);
    }
    fn buflen(&self) -> usize {
        tick_op(2, 0);
        self.0.buflen()
    }
    fn bufmaxlen(&self) -> usize {
        self.0.bufmaxlen()
    }
    fn buf_is_empty(&self) -> bool {
        tick_op(3, 0);
        self.0.buf_is_empty()
    }
    fn raw_read_ch(&mut self) -> char {
        tick_op(4, 0);
        self.0.raw_read_ch()
    }
    fn raw_read_non_breakz_ch(&mut self) -> Option<char> {
        tick_op(5, 0);
        probe(Probe::RawReadPath);
        self.0.raw_read_non_breakz_ch()
    }
    fn skip(&mut self) {
        tick_op(6, 0);
        self.0.skip();
    }
    fn skip_n(&mut self, count: usize) {
        tick_op(7, count as u64);
        self.0.skip_n(count);
    }
    fn peek(&self) -> char {
        tick_op(8, 0);
        self.0.peek()
    }
    fn peek_nth(&self, n: usize) -> char {
        tick_op(9, n as u64);
        self.0.peek_nth(n)
    }
    fn look_ch(&mut self) -> char {
        tick_op(10, 0);
        self.0.look_ch()
    }
    fn next_char_is(&self, c: char) -> bool {
        tick_op(11, 0);
        self.0.next_char_is(c)
    }
    fn nth_char_is(&self, n: usize, c: char) -> bool {
        tick_op(12, n as u64);
        self.0.nth_char_is(n, c)
    }
    fn next_2_are(&self, c1: char, c2: char) -> bool {
        tick_op(13, 0);
        self.0.next_2_are(c1, c2)
    }
    fn next_3_are(&self, c1: char, c2: char, c3: char) -> bool {
        tick_op(14, 0);
        self.0.next_3_are(c1, c2, c3)
    }
    fn next_is_document_indicator(&self) -> bool {
        tick_op(15, 0);
        self.0.next_is_document_indicator()
    }
    fn next_is_document_start(&self) -> bool {
        tick_op(16, 0);
        self.0.next_is_document_start()
    }
    fn next_is_document_end(&self) -> bool {
        tick_op(17, 0);
        self.0.next_is_document_end()
    }
    fn skip_ws_to_eol(&mut self, skip_tabs: SkipTabs) -> (usize, Result<SkipTabs, &'static str>) {
        tick_op(18, 0);
        self.0.skip_ws_to_eol(skip_tabs)
    }
    fn next_can_be_plain_scalar(&self, in_flow: bool) -> bool {
        tick_op(19, u64::from(in_flow));
        self.0.next_can_be_plain_scalar(in_flow)
    }
    fn next_is_blank_or_break(&self) -> bool {
        tick_op(20, 0);
        self.0.next_is_blank_or_break()
    }
    fn next_is_blank_or_breakz(&self) -> bool {
        tick_op(21, 0);
        self.0.next_is_blank_or_breakz()
    }
    fn next_is_blank(&self) -> bool {
        tick_op(22, 0);
        self.0.next_is_blank()
    }
    fn next_is_break(&self) -> bool {
        tick_op(23, 0);
        self.0.next_is_break()
    }
    fn next_is_breakz(&self) -> bool {
        tick_op(24, 0);
        self.0.next_is_breakz()
    }
    fn next_is_z(&self) -> bool {
        tick_op(25, 0);
        self.0.next_is_z()
    }
    fn next_is_flow(&self) -> bool {
        tick_op(26, 0);
        self.0.next_is_flow()
    }
    fn next_is_digit(&self) -> bool {
        tick_op(27, 0);
        self.0.next_is_digit()
    }
    fn next_is_alpha(&self) -> bool {
        tick_op(28, 0);
        self.0.next_is_alpha()
    }
    fn skip_while_non_breakz(&mut self) -> usize {
        tick_op(29, 0);
        self.0.skip_while_non_breakz()
    }
    fn skip_while_blank(&mut self) -> usize {
        tick_op(30, 0);
        self.0.skip_while_blank()
    }
    fn fetch_while_is_alpha(&mut self, out: &mut String) -> usize {
        tick_op(31, 0);
        self.0.fetch_while_is_alpha(out)
    }
}

// ---------------------------------------------------------------------------------------------

/// What a ring-buffer input does when `raw_read_non_breakz_ch` meets a break. Both behaviours
/// are allowed by the trait documentation (`input.rs:57-64`).
#[derive(Clone, Copy, Debug, PartialEq, Eq)]
pub enum Policy {
    /// Consume it from the source and push it into the buffer (what `BufferedInput` does).
    PushBack,
    /// Leave it unconsumed in the source (what `StrInput` does).
    Leave,
    /// Decide per call from the decision tape (buggify site).
    PerCall,
}

impl Policy {
    pub fn name(self) -> &'static str {
        match self {
            Policy::PushBack => "pushback",
            Policy::Leave => "leave",
            Policy::PerCall => "percall",
        }
    }
    pub fn from_name(s: &str) -> Policy {
        match s {
            "leave" => Policy::Leave,
            "percall" => Policy::PerCall,
            _ => Policy::PushBack,
        }
    }
}

fn contract(msg: String) -> ! {
    clock::disarm();
    std::panic::panic_any(ContractViolation(msg))
}

/// S1 simulated: an exact-fill ring buffer of capacity `cap` over a fused char source.
/// It panics exactly where `BufferedInput`'s `ArrayDeque` would (capacity overflow on push,
/// index out of range on peek, drain out of range on skip_n) and nowhere else.
pub struct SimRing {
    chars: Rc<[char]>,
    pos: usize,
    end: usize,
    early: bool,
    buf: VecDeque<char>,
    cap: usize,
    policy: Policy,
}

impl SimRing {
    pub fn new(chars: Rc<[char]>, eof_at: Option<usize>, cap: usize, policy: Policy) -> Self {
        assert!(cap >= 8, "the documented minimum capacity is 8");
        let n = chars.len();
        let end = eof_at.map_or(n, |e| e.min(n));
        SimRing {
            chars,
            pos: 0,
            end,
            early: end < n,
            buf: VecDeque::with_capacity(cap),
            cap,
            policy,
        }
    }
    #[inline]
    fn src_next(&mut self) -> Option<char> {
        if self.pos < self.end {
            let c = self.chars[self.pos];
            self.pos += 1;
            Some(c)
        } else {
            if self.early {
                self.early = false;
                probe(Probe::SourceEofEarly);
            }
            None
        }
    }
    fn push(&mut self, c: char) {
        if self.buf.len() >= self.cap {
            contract(format!(
                "SimRing(cap={}): push into a full buffer (the shipped ring buffer's push_back().unwrap() panics here)",
                self.cap
            ));
        }
        self.buf.push_back(c);
    }
}

impl Input for SimRing {
    fn lookahead(&mut self, count: usize) {
        tick_op(1, ((self.buf.len() as u64) << 16) | count as u64);
        if count == self.cap {
            probe(Probe::LookaheadFullCap);
        }
        if self.buf.len() >= count {
            return;
        }
        for _ in 0..(count - self.buf.len()) {
            let c = match self.src_next() {
                Some(c) => c,
                None => {
                    probe(Probe::LookaheadPadded);
                    '\0'
                }
            };
            self.push(c);
        }
    }
    fn buflen(&self) -> usize {
        tick_op(2, 0);
        self.buf.len()
    }
    fn bufmaxlen(&self) -> usize {
        self.cap
    }
    fn raw_read_ch(&mut self) -> char {
        tick_op(4, self.buf.len() as u64);
        self.src_next().unwrap_or('\0')
    }
    fn raw_read_non_breakz_ch(&mut self) -> Option<char> {
        tick_op(5, self.buf.len() as u64);
        probe(Probe::RawReadPath);
        if self.pos < self.end {
            let c = self.chars[self.pos];
            if is_breakz(c) {
                let leave = match self.policy {
                    Policy::PushBack => false,
                    Policy::Leave => true,
                    Policy::PerCall => clock::choose(2) == 1,
                };
                if leave {
                    probe(Probe::BreakLeftUnconsumed);
                } else {
                    probe(Probe::BreakPushedBack);
                    self.pos += 1;
                    self.push(c);
                }
                None
            } else {
                self.pos += 1;
                Some(c)
            }
        } else {
            let _ = self.src_next();
            None
        }
    }
    fn skip(&mut self) {
        tick_op(6, self.buf.len() as u64);
        self.buf.pop_front();
    }
    fn skip_n(&mut self, count: usize) {
        tick_op(7, ((self.buf.len() as u64) << 16) | count as u64);
        if count > self.buf.len() {
            contract(format!(
                "SimRing(cap={}): skip_n({count}) with only {} buffered (ArrayDeque::drain panics here)",
                self.cap,
                self.buf.len()
            ));
        }
        self.buf.drain(0..count);
    }
    fn peek(&self) -> char {
        tick_op(8, self.buf.len() as u64);
        match self.buf.front() {
            Some(c) => *c,
            None => contract(format!(
                "SimRing(cap={}): peek() on an empty buffer (ArrayDeque index panics here)",
                self.cap
            )),
        }
    }
    fn peek_nth(&self, n: usize) -> char {
        tick_op(9, ((self.buf.len() as u64) << 16) | n as u64);
        match self.buf.get(n) {
            Some(c) => *c,
            None => contract(format!(
                "SimRing(cap={}): peek_nth({n}) with only {} buffered (ArrayDeque index panics here)",
                self.cap,
                self.buf.len()
            )),
        }
    }
}

// ---------------------------------------------------------------------------------------------

/// S1 simulated: a virtual buffer in the style of `StrInput` (never empty once looked ahead,
/// `buflen` = the largest look-ahead ever requested, NUL past the end) at any capacity.
pub struct SimSlice {
    chars: Rc<[char]>,
    pos: usize,
    end: usize,
    look: usize,
    cap: usize,
}

impl SimSlice {
    pub fn new(chars: Rc<[char]>, eof_at: Option<usize>, cap: usize) -> Self {
        assert!(cap >= 8);
        let n = chars.len();
        let end = eof_at.map_or(n, |e| e.min(n));
        if end < n {
            probe(Probe::SourceEofEarly);
        }
        SimSlice {
            chars,
            pos: 0,
            end,
            look: 0,
            cap,
        }
    }
    #[inline]
    fn at(&self, k: usize) -> char {
        let i = self.pos + k;
        if i < self.end {
            self.chars[i]
        } else {
            '\0'
        }
    }
}

impl Input for SimSlice {
    fn lookahead(&mut self, count: usize) {
        tick_op(1, count as u64);
        if count == self.cap {
            probe(Probe::LookaheadFullCap);
        }
        self.look = self.look.max(count);
    }
    fn buflen(&self) -> usize {
        tick_op(2, 0);
        self.look
    }
    fn bufmaxlen(&self) -> usize {
        self.cap
    }
    fn raw_read_ch(&mut self) -> char {
        tick_op(4, 0);
        let c = self.at(0);
        if self.pos < self.end {
            self.pos += 1;
        }
        c
    }
    fn raw_read_non_breakz_ch(&mut self) -> Option<char> {
        tick_op(5, 0);
        probe(Probe::RawReadPath);
        if self.pos < self.end {
            let c = self.chars[self.pos];
            if is_breakz(c) {
                probe(Probe::BreakLeftUnconsumed);
                None
            } else {
                self.pos += 1;
                Some(c)
            }
        } else {
            None
        }
    }
    fn skip(&mut self) {
        tick_op(6, 0);
        if self.pos < self.end {
            self.pos += 1;
        }
    }
    fn skip_n(&mut self, count: usize) {
        tick_op(7, count as u64);
        self.pos = (self.pos + count).min(self.end);
    }
    fn peek(&self) -> char {
        tick_op(8, 0);
        self.at(0)
    }
    fn peek_nth(&self, n: usize) -> char {
        tick_op(9, n as u64);
        self.at(n)
    }
}

// ---------------------------------------------------------------------------------------------

/// An adapter with its OWN buffer accounting over a real back-end (a metering / logging / tee
/// adapter as a user would write it): it reports as buffered exactly what the scanner asked to
/// look ahead and has not consumed yet, forwards the required methods only, and leaves the
/// provided ones to the trait defaults. The scanner therefore takes its "buffer is empty" paths
/// (raw reads) on a back-end that never takes them by itself.
pub struct Metered<I: Input> {
    inner: I,
    avail: usize,
}

impl<I: Input> Metered<I> {
    pub fn new(inner: I) -> Self {
        Metered { inner, avail: 0 }
    }
}

impl<I: Input> Input for Metered<I> {
    fn lookahead(&mut self, count: usize) {
        tick_op(1, count as u64);
        self.inner.lookahead(count);
        self.avail = self.avail.max(count);
    }
    fn buflen(&self) -> usize {
        tick_op(2, 0);
        self.avail
    }
    fn bufmaxlen(&self) -> usize {
        self.inner.bufmaxlen()
    }
    fn raw_read_ch(&mut self) -> char {
        tick_op(4, 0);
        self.inner.raw_read_ch()
    }
    fn raw_read_non_breakz_ch(&mut self) -> Option<char> {
        tick_op(5, 0);
        probe(Probe::RawReadPath);
        self.inner.raw_read_non_breakz_ch()
    }
    fn skip(&mut self) {
        tick_op(6, 0);
        self.inner.skip();
        self.avail = self.avail.saturating_sub(1);
    }
    fn skip_n(&mut self, count: usize) {
        tick_op(7, count as u64);
        self.inner.skip_n(count);
        self.avail = self.avail.saturating_sub(count);
    }
    fn peek(&self) -> char {
        tick_op(8, 0);
        self.inner.peek()
    }
    fn peek_nth(&self, n: usize) -> char {
        tick_op(9, n as u64);
        self.inner.peek_nth(n)
    }
}

// ---------------------------------------------------------------------------------------------

/// S1, run-length form: a stream described as (character, count) segments, so that it can be
/// billions of characters long. The bulk operations of the `Input` trait (`skip_while_non_breakz`,
/// `skip_while_blank`, `skip_n`) jump over a segment in one step, as the string input jumps over
/// a comment with a slice operation: the simulator's "jump the clock to the next event".
pub struct SimRle {
    segs: Vec<(char, u64)>,
    si: usize,
    so: u64,
    look: usize,
}

pub const RLE_MAGIC: &str = "\u{1}RLE\u{1}";

impl SimRle {
    /// `\u{1}RLE\u{1}` then `c*count` items separated by `\u{1}`.
    pub fn from_notation(text: &str) -> Self {
        let mut segs = Vec::new();
        for item in text.strip_prefix(RLE_MAGIC).unwrap_or("").split('\u{1}') {
            let mut cs = item.chars();
            if let (Some(c), Some('*')) = (cs.next(), cs.next()) {
                let n: u64 = cs.as_str().parse().unwrap_or(1);
                if n > 0 {
                    segs.push((c, n));
                }
            }
        }
        SimRle { segs, si: 0, so: 0, look: 0 }
    }
    pub fn notation(segs: &[(char, u64)]) -> String {
        let mut s = String::from(RLE_MAGIC);
        for (k, (c, n)) in segs.iter().enumerate() {
            if k > 0 {
                s.push('\u{1}');
            }
            s.push_str(&format!("{c}*{n}"));
        }
        s
    }
    /// Logical length of a notation.
    pub fn logical_len(text: &str) -> u64 {
        Self::from_notation(text).segs.iter().map(|s| s.1).sum()
    }
    fn at(&self, mut k: u64) -> char {
        let (mut si, mut so) = (self.si, self.so);
        while si < self.segs.len() {
            let left = self.segs[si].1 - so;
            if k < left {
                return self.segs[si].0;
            }
            k -= left;
            si += 1;
            so = 0;
        }
        '\0'
    }
    fn advance(&mut self, mut n: u64) {
        while n > 0 && self.si < self.segs.len() {
            let left = self.segs[self.si].1 - self.so;
            if n < left {
                self.so += n;
                return;
            }
            n -= left;
            self.si += 1;
            self.so = 0;
        }
    }
    fn skip_run(&mut self, pred: fn(char) -> bool) -> usize {
        let mut total = 0u64;
        while self.si < self.segs.len() && pred(self.segs[self.si].0) {
            total += self.segs[self.si].1 - self.so;
            self.si += 1;
            self.so = 0;
        }
        total as usize
    }
}

impl Input for SimRle {
    fn lookahead(&mut self, count: usize) {
        tick_op(1, count as u64);
        self.look = self.look.max(count);
    }
    fn buflen(&self) -> usize {
        tick_op(2, 0);
        self.look
    }
    fn bufmaxlen(&self) -> usize {
        128
    }
    fn raw_read_ch(&mut self) -> char {
        tick_op(4, 0);
        let c = self.at(0);
        self.advance(1);
        c
    }
    fn raw_read_non_breakz_ch(&mut self) -> Option<char> {
        tick_op(5, 0);
        let c = self.at(0);
        if self.si >= self.segs.len() || is_breakz(c) {
            None
        } else {
            self.advance(1);
            Some(c)
        }
    }
    fn skip(&mut self) {
        tick_op(6, 0);
        self.advance(1);
    }
    fn skip_n(&mut self, count: usize) {
        tick_op(7, count as u64);
        self.advance(count as u64);
    }
    fn peek(&self) -> char {
        tick_op(8, 0);
        self.at(0)
    }
    fn peek_nth(&self, n: usize) -> char {
        tick_op(9, n as u64);
        self.at(n as u64)
    }
    fn skip_while_non_breakz(&mut self) -> usize {
        tick_op(10, 0);
        self.skip_run(|c| !is_breakz(c))
    }
    fn skip_while_blank(&mut self) -> usize {
        tick_op(11, 0);
        self.skip_run(|c| c == ' ' || c == '\t')
    }
    /// The trait's default, run by run instead of character by character (same result).
    fn skip_ws_to_eol(&mut self, skip_tabs: saphyr_parser::input::SkipTabs) -> (usize, Result<saphyr_parser::input::SkipTabs, &'static str>) {
        use saphyr_parser::input::SkipTabs;
        tick_op(12, 0);
        let (mut encountered_tab, mut has_yaml_ws, mut consumed) = (false, false, 0usize);
        loop {
            match self.at(0) {
                ' ' if self.si < self.segs.len() => {
                    has_yaml_ws = true;
                    consumed += self.skip_run(|c| c == ' ');
                }
                '\t' if skip_tabs != SkipTabs::No => {
                    encountered_tab = true;
                    consumed += self.skip_run(|c| c == '\t');
                }
                '#' if !encountered_tab && !has_yaml_ws => {
                    return (consumed, Err("comments must be separated from other tokens by whitespace"));
                }
                '#' => {
                    self.advance(1);
                    consumed += 1 + self.skip_run(|c| !is_breakz(c));
                }
                _ => break,
            }
        }
        (consumed, Ok(SkipTabs::Result(encountered_tab, has_yaml_ws)))
    }
}

// ---------------------------------------------------------------------------------------------

/// Which input the simulated environment puts under the parser.
#[derive(Clone, Copy, Debug, PartialEq, Eq)]
pub enum InputKind {
    /// `Ticking<StrInput>` (real back-end).
    Str,
    /// `Ticking<BufferedInput<SimSource>>` (real back-end over a simulated source).
    Buffered,
    /// `Parser::new_from_iter(SimSource)`: the real constructor, no wrapper (ticks only from the source).
    BufferedBare,
    Ring(usize, Policy),
    Slice(usize),
    /// `SimRle`: the case text is a run-length notation of the stream.
    Rle,
    /// `Metered<StrInput>`: an adapter with its own buffer accounting over the string input.
    MeteredStr,
}

impl InputKind {
    /// What the input reports as `bufmaxlen()` (the scanner sizes its scalar buffers by it).
    pub fn capacity(&self) -> usize {
        match self {
            InputKind::Str | InputKind::Rle | InputKind::MeteredStr => 128,
            InputKind::Buffered | InputKind::BufferedBare => 16,
            InputKind::Ring(c, _) | InputKind::Slice(c) => *c,
        }
    }
    pub fn describe(&self) -> String {
        match self {
            InputKind::Str => "str".into(),
            InputKind::Buffered => "buffered".into(),
            InputKind::BufferedBare => "buffered-bare".into(),
            InputKind::Ring(c, p) => format!("ring:{c}:{}", p.name()),
            InputKind::Slice(c) => format!("slice:{c}"),
            InputKind::Rle => "rle".into(),
            InputKind::MeteredStr => "metered-str".into(),
        }
    }
    pub fn parse(s: &str) -> Option<InputKind> {
        let parts: Vec<&str> = s.split(':').collect();
        match parts[0] {
            "str" => Some(InputKind::Str),
            "buffered" => Some(InputKind::Buffered),
            "buffered-bare" => Some(InputKind::BufferedBare),
            "ring" => Some(InputKind::Ring(
                parts.get(1)?.parse().ok()?,
                Policy::from_name(parts.get(2).copied().unwrap_or("pushback")),
            )),
            "slice" => Some(InputKind::Slice(parts.get(1)?.parse().ok()?)),
            "rle" => Some(InputKind::Rle),
            "metered-str" => Some(InputKind::MeteredStr),
            _ => None,
        }
    }
    pub fn cap(&self) -> usize {
        match self {
            InputKind::Str | InputKind::Rle | InputKind::MeteredStr => 128,
            InputKind::Buffered | InputKind::BufferedBare => 16,
            InputKind::Ring(c, _) | InputKind::Slice(c) => *c,
        }
    }
}
