//! Workload generators (what the simulated clients feed in). They carry no oracle of YAML
//! meaning; their only job is to drive the scanner into deep, in-flight state so that what the
//! environment does at the seams matters.

use crate::json::J;
use crate::rng::SplitMix64;

pub struct Corpus {
    pub docs: Vec<(String, String)>,
}

impl Corpus {
    pub fn load(path: &str) -> Result<Corpus, String> {
        let s = std::fs::read_to_string(path).map_err(|e| format!("{path}: {e}"))?;
        let mut docs = Vec::new();
        for line in s.lines() {
            if line.trim().is_empty() {
                continue;
            }
            let j = J::parse(line)?;
            let name = j.get("name").and_then(J::as_str).ok_or("name")?.to_string();
            let text = j.get("text").and_then(J::as_str).ok_or("text")?.to_string();
            docs.push((name, text));
        }
        if docs.len() < 100 {
            return Err(format!("corpus too small: {}", docs.len()));
        }
        Ok(Corpus { docs })
    }
}

/// Swarm parameters, drawn once per batch of 4096 runs.
#[derive(Clone, Debug)]
pub struct Swarm {
    /// weights of W1 (corpus), W2 (mutated corpus), W3 (tree renderer), W4 (soups), W6 (splices)
    pub w: [u32; 5],
    pub max_nodes: usize,
    pub max_depth: usize,
    pub nonascii: u32,   // per-mille chance that a scalar word carries non-ASCII
    pub crlf: u32,       // per-mille chance that a document uses CRLF
    pub cross_alias: u32, // per-mille chance that an alias refers to a previous document's anchor
    pub long_scalar: u32, // per-mille chance of capacity-sized words
    pub deep: u32,        // per-mille chance of a deep-nesting text (W7)
    pub many: u32,        // per-mille chance of a many-things text (W9)
    pub large: u32,       // per-100000 chance of a large structured document (W10)
}

impl Swarm {
    pub fn draw(r: &mut SplitMix64, soups: bool) -> Swarm {
        let mut w = [
            r.below(4) as u32,
            1 + r.below(6) as u32,
            1 + r.below(6) as u32,
            if soups { r.below(4) as u32 } else { 0 },
            r.below(3) as u32,
        ];
        if w.iter().sum::<u32>() == 0 {
            w[2] = 1;
        }
        Swarm {
            w,
            max_nodes: *r.pick(&[4, 8, 16, 40]),
            max_depth: *r.pick(&[2, 3, 5, 8, 12]),
            nonascii: *r.pick(&[0, 20, 100, 400]),
            crlf: *r.pick(&[0, 0, 50, 500]),
            cross_alias: *r.pick(&[0, 100, 300, 700]),
            long_scalar: *r.pick(&[0, 30, 100, 300]),
            deep: *r.pick(&[0, 2, 10, 40]),
            many: *r.pick(&[0, 2, 5, 20]),
            large: *r.pick(&[0, 3, 10, 20]),
        }
    }
}

pub const INDICATORS: [char; 14] = [
    '-', ':', '?', '[', ']', '{', '}', ',', '#', '&', '*', '!', '|', '>',
];

/// The 14-symbol alphabet of the exhaustive W5 enumeration (C01).
pub const W5_ALPHABET: [char; 14] = [
    'a', ' ', '\n', '-', ':', '?', '[', '{', ']', ',', '#', '"', '\'', '|',
];

/// The 16-symbol alphabet of C10's exhaustive enumeration: the characters the byte-level
/// `StrInput` overrides special-case (blanks, TAB, breaks incl. CR, document-indicator and
/// comment characters, flow indicators, a quote, a block-scalar header) plus one non-ASCII.
pub const C10_ALPHABET: [char; 16] = [
    'a', ' ', '\n', '\t', '-', '.', ':', '#', '[', ',', '"', '|', '\u{e9}', '\r', '\0', '{',
];

/// Token-level exhaustive enumeration (W8): every sequence of up to L tokens over the YAML
/// token alphabet below (indicators with and without their separating blank, the three quote
/// characters, both block scalar headers, node properties, document markers, directives, every
/// kind of blank / break / NUL, a non-ASCII character and a backslash).
pub const TOKENS: [&str; 36] = [
    "a", "b ", " ", "  ", "\n", "\t", "- ", "? ", ": ", ":", ",", "[", "]", "{", "}", "#", " #c", "&x ", "*x", "!t ",
    "!!str ", "|\n", ">-\n", "'s'", "\"d\"", "\"", "'", "---", "...", "--- ", "%YAML 1.2\n", "%TAG !e! t:\n", "\r\n",
    "\0", "\u{e9}", "\\",
];

pub fn count_token_strings(l: usize) -> u64 {
    (1..=l).map(|k| (TOKENS.len() as u64).pow(k as u32)).sum()
}

/// The i-th token string (lengths 1..; index 0 is the first single token).
pub fn nth_token_string(mut i: u64) -> String {
    let k = TOKENS.len() as u64;
    let mut len = 1u32;
    loop {
        let n = k.pow(len);
        if i < n {
            break;
        }
        i -= n;
        len += 1;
    }
    let mut s = String::new();
    for _ in 0..len {
        s.push_str(TOKENS[(i % k) as usize]);
        i /= k;
    }
    s
}

pub fn nth_string(alphabet: &[char], mut i: u64) -> String {
    let k = alphabet.len() as u64;
    let mut len = 0u32;
    loop {
        let n = k.pow(len);
        if i < n {
            break;
        }
        i -= n;
        len += 1;
    }
    let mut s = String::new();
    for _ in 0..len {
        s.push(alphabet[(i % k) as usize]);
        i /= k;
    }
    s
}

pub fn count_strings(alphabet_len: usize, l: usize) -> u64 {
    (0..=l).map(|k| (alphabet_len as u64).pow(k as u32)).sum()
}

pub fn w5_string(mut idx: u64, len: usize) -> String {
    let mut s = String::with_capacity(len);
    for _ in 0..len {
        s.push(W5_ALPHABET[(idx % 14) as usize]);
        idx /= 14;
    }
    s
}

/// Total number of strings of length 0..=l over the W5 alphabet.
pub fn w5_count(l: usize) -> u64 {
    (0..=l).map(|k| 14u64.pow(k as u32)).sum()
}

/// Map a global index to (len, idx-within-len).
pub fn w5_nth(mut i: u64) -> String {
    let mut len = 0usize;
    loop {
        let n = 14u64.pow(len as u32);
        if i < n {
            return w5_string(i, len);
        }
        i -= n;
        len += 1;
    }
}

/// One representative character for every possible UTF-8 lead byte (0xC2..=0xF4): byte-level
/// fast paths that cast the first byte of a multi-byte character to `char` can misfire for a
/// particular lead byte only, so "some non-ASCII character" is not enough.
pub fn lead_byte_char(k: usize) -> char {
    let lead = 0xC2u32 + (k as u32 % 51);
    let cp = if lead < 0xE0 {
        ((lead & 0x1F) << 6) | 0x12
    } else if lead < 0xF0 {
        let c = ((lead & 0x0F) << 12) | 0x0892;
        if lead == 0xE0 { 0x0892 } else if lead == 0xED { 0xD592 } else { c }
    } else {
        let c = ((lead & 0x07) << 18) | 0x12345 & 0x3FFFF;
        if lead == 0xF0 { 0x12345 } else if lead == 0xF4 { 0x10_0345 } else { c | 0x345 }
    };
    char::from_u32(cp).unwrap_or('\u{e9}')
}

/// Contexts (what precedes) x followers (the next character) x suffixes, enumerated completely:
/// every scanner state in which the next character is classified by a byte-level or char-level
/// predicate, followed by every class of character.
pub const CONTEXTS: [&str; 96] = [
    "", "a", "a ", "- ", "? ", "a:", "a: ", "[", "[a", "[a,", "[ ", "{", "{a", "{a:", "{a: ", "!t", "[!t", "{!t", "- !t", "!!str", "[!<x>",
    "&a", "[&a", "*a", "[*a", "- &a", "\"a", "'a", "[\"a\"", "#", "a #", "|", ">", "|2", "a: |", "%YAML 1.", "%YAML 1", "%TAG !e", "%TAG !e! t", "%F",
    "---", "...", "a\n", "- a\n ",
    // adjacency contexts: indicators directly after a scalar / key / quote, in flow and in block
    "[a:", "{a:", "{\"a\":", "[\"a\":", "[?", "{?", "[:", "{:", "a #", "a#", "'a'", "\"a\"", "- a:", "? a", "? a\n:", "a: b\n c", "a: b\n  ", "&a *",
    "!e!", "!", "!<", "!<a", "%TAG ! ", "%TAG !e! ", "|\n a\n", ">\n a\n\n",
    // separation by TAB only
    "a:\t", "-\t", "?\t", "[a,\t", "{a:\t", "a:\t\t", "- a:\t", "!t\t", "&a\t", "|\t", "%YAML\t", "---\t",
    // inside escapes: the follower lands in a digit position
    "\"\\", "\"\\x", "\"\\x4", "\"\\u", "\"\\u00A", "\"\\U0001F60", "[\"\\x", "!t%", "!t%4", "!<%", "!<a%4", "%TAG !e! t%", "%TAG !e! t%4", "- !e!%",
];
pub const FOLLOW_ASCII: [char; 38] = [
    'a', 'Z', '0', '9', ' ', '\t', '\n', '\r', '\0', '-', '.', ':', '?', ',', '[', ']', '{', '}', '#', '&', '*', '!', '|', '>', '\'', '"', '%', '@', '`',
    '\\', '_', '~', '/', '\u{7f}', '\u{c}', '\u{b}', '\u{1b}', '\u{1}',
];
pub const SUFFIXES: [&str; 5] = ["", "]", " x", "\n", "}: b\n"];

/// Characters that a truncating cast turns into an ASCII character: U+0100 + b for every ASCII
/// b (`c as u8`), and U+10000 + b for the YAML-significant ones (`c as u16`).
pub const SIGNIFICANT_ASCII: &str = " \t\n\r,[]{}:#&*!|>'\"%@`-?.\\0179afAF";
pub fn alias_follower_count() -> usize {
    128 + SIGNIFICANT_ASCII.len()
}
pub fn alias_follower(k: usize) -> char {
    let cp = if k < 128 { 0x100 + k as u32 } else { 0x1_0000 + u32::from(SIGNIFICANT_ASCII.as_bytes()[k - 128]) };
    char::from_u32(cp).unwrap_or('\u{100}')
}

pub fn count_context_cases() -> u64 {
    (CONTEXTS.len() * (FOLLOW_ASCII.len() + 51 + 4 + alias_follower_count()) * SUFFIXES.len()) as u64
}

pub fn nth_context_case(i: u64) -> String {
    let nf = (FOLLOW_ASCII.len() + 51 + 4 + alias_follower_count()) as u64;
    let suf = SUFFIXES[(i % SUFFIXES.len() as u64) as usize];
    let j = i / SUFFIXES.len() as u64;
    let f = (j % nf) as usize;
    let ctx = CONTEXTS[((j / nf) % CONTEXTS.len() as u64) as usize];
    let follower = if f < FOLLOW_ASCII.len() {
        FOLLOW_ASCII[f]
    } else if f < FOLLOW_ASCII.len() + 51 {
        lead_byte_char(f - FOLLOW_ASCII.len())
    } else if f < FOLLOW_ASCII.len() + 51 + 4 {
        ['\u{85}', '\u{a0}', '\u{2028}', '\u{feff}'][f - FOLLOW_ASCII.len() - 51]
    } else {
        alias_follower(f - FOLLOW_ASCII.len() - 51 - 4)
    };
    format!("{ctx}{follower}{suf}")
}

/// "Sliding" cases: a multi-byte character (literal, or %-escaped where only escapes are legal)
/// placed behind k = 0..=40 ASCII characters inside every construct whose TEXT is later handled
/// by byte offset somewhere (tags, anchors, tagged and untagged plain scalars, keys, directive
/// values): byte-offset arithmetic against a constant (a prefix length, a split point) fails only
/// when a character straddles exactly that offset.
pub const SLIDE_TEMPLATES: [&str; 14] = [
    "!<{P}{E}> x\n", "!<tag:{P}{E}> x\n", "!{P}{E} x\n", "!!{P}{E} x\n", "&{P}{M} x\n", "*{P}{M}\n", "!!int {D}{M}\n", "!!float {D}{M}\n", "!!bool {P}{M}\n",
    "!!null {P}{M}\n", "{P}{M}: v\n", "- {D}{M}\n", "%TAG !e! {P}{E}\n--- !e!x y\n", "k: !<tag:yaml.org,2002:{P}{E}> 1\n",
];
pub const SLIDE_CHARS: [(&str, &str); 3] = [("\u{e9}", "%C3%A9"), ("\u{4e2d}", "%E4%B8%AD"), ("\u{1F600}", "%F0%9F%98%80")];
pub fn slide_count() -> u64 {
    (SLIDE_TEMPLATES.len() * 41 * SLIDE_CHARS.len()) as u64
}
pub fn nth_slide(i: u64) -> String {
    let (lit, esc) = SLIDE_CHARS[(i % 3) as usize];
    let k = ((i / 3) % 41) as usize;
    let t = SLIDE_TEMPLATES[((i / 123) % SLIDE_TEMPLATES.len() as u64) as usize];
    let p: String = (0..k).map(|j| (b'a' + (j % 26) as u8) as char).collect();
    let d: String = (0..k).map(|j| (b'1' + (j % 9) as u8) as char).collect();
    t.replace("{P}", &p).replace("{D}", &d).replace("{E}", esc).replace("{M}", lit)
}

/// "Repeat" cases: every ordered pair of tokens repeated n times (n around the u8 limit and
/// 1000): state that grows by one per repetition of a *fragment* (not of a character) and is
/// only released by a different token.
pub const REPEAT_COUNTS: [usize; 4] = [255, 256, 257, 1000];
pub fn repeat_count() -> u64 {
    (TOKENS.len() * TOKENS.len() * REPEAT_COUNTS.len()) as u64
}
pub fn nth_repeat(i: u64) -> String {
    let n = REPEAT_COUNTS[(i % 4) as usize];
    let j = i / 4;
    let a = TOKENS[(j % TOKENS.len() as u64) as usize];
    let b = TOKENS[((j / TOKENS.len() as u64) % TOKENS.len() as u64) as usize];
    let mut s = String::with_capacity((a.len() + b.len()) * n + 4);
    // an opener first, so that the repetition happens inside a flow / block context half of the time
    if i % 8 >= 4 {
        s.push_str(if j % 2 == 0 { "[" } else { "- " });
    }
    for _ in 0..n {
        s.push_str(a);
        s.push_str(b);
    }
    s
}

/// Escape values at the edges of what an escape can denote, enumerated in ordered pairs inside a
/// double-quoted scalar (surrogate halves in both orders, the last and first-beyond code points,
/// NUL, C1 controls, BOM, truncated and non-hex forms).
pub const ESCAPES: [&str; 26] = [
    "\\u0041", "\\u0000", "\\x00", "\\xFF", "\\x7F", "\\u0080", "\\u00FF", "\\uD7FF", "\\uD800", "\\uDBFF", "\\uDC00", "\\uDFFF", "\\uE000", "\\uFFFD",
    "\\uFFFE", "\\uFFFF", "\\uFEFF", "\\U0001F600", "\\U0010FFFF", "\\U00110000", "\\UFFFFFFFF", "\\U0000D800", "\\uD83D", "\\uDE00", "\\u12", "\\uZZZZ",
];
pub fn escape_pair_count() -> u64 {
    (ESCAPES.len() * ESCAPES.len() * 2) as u64
}
pub fn nth_escape_pair(i: u64) -> String {
    let sep = if i % 2 == 0 { "" } else { "a" };
    let j = i / 2;
    let a = ESCAPES[(j % ESCAPES.len() as u64) as usize];
    let b = ESCAPES[((j / ESCAPES.len() as u64) % ESCAPES.len() as u64) as usize];
    format!("k: \"{a}{sep}{b}\"\n")
}

pub struct Gen<'a> {
    pub r: SplitMix64,
    pub corpus: &'a Corpus,
    pub sw: &'a Swarm,
    anchors_prev: Vec<String>,
    anchors_cur: Vec<String>,
    nodes_left: usize,
    next_anchor: usize,
    pub made_cross_alias: bool,
    e_handle: bool,
    /// anchors of collections currently being rendered (for self-referential aliases)
    open_anchors: Vec<String>,
}

const WORDS: [&str; 28] = [
    "a", "b", "key", "value", "foo", "bar", "x1", "0", "42", "-1", "3.14", "true", "null", "~",
    "yes", "0x1F", "1e3", ".inf", "hello world", "a b c", "http://x.y/z?q=1", "a:b", "-x", "é",
    "_x", "_", "-", "a_b-c",
];
/// Numbers at and around the limits of the integer and float types the code may parse them
/// into, and malformed numeric forms (an exponent without digits, a lone sign, several dots).
pub const NUMBERS: [&str; 60] = [
    "0", "1", "9", "10", "99", "127", "128", "255", "256", "999", "1024", "32767", "32768", "65535", "65536", "99999", "999999999", "1000000000",
    "2147483647", "2147483648", "4294967295", "4294967296", "9999999999", "10000000000", "99999999999", "9223372036854775807",
    "9223372036854775808", "18446744073709551615", "18446744073709551616", "99999999999999999999", "340282366920938463463374607431768211456",
    "-1", "-128", "-129", "-2147483649", "-9223372036854775808", "-9223372036854775809", "+1", "+", "-", "1e3", "1e+3", "1E-3", "1e", "1e+", "1e-",
    ".5", "5.", ".", "..", "1.2.3", "1e308", "1e309", "1e-400", "0x7FFFFFFFFFFFFFFF", "0xFFFFFFFFFFFFFFFFF", "0o1777777777777777777777", "0x", "1_000", "-.inf",
];

const NONASCII: [&str; 8] = ["é", "ß", "中", "日本", "😀", "\u{85}", "\u{2028}", "ü"];

impl<'a> Gen<'a> {
    pub fn new(seed: u64, corpus: &'a Corpus, sw: &'a Swarm) -> Self {
        Gen {
            r: SplitMix64::new(seed),
            corpus,
            sw,
            anchors_prev: Vec::new(),
            anchors_cur: Vec::new(),
            nodes_left: 0,
            next_anchor: 1,
            made_cross_alias: false,
            e_handle: false,
            open_anchors: Vec::new(),
        }
    }

    /// Draw one text according to the swarm weights. Returns (generator name, text).
    pub fn text(&mut self) -> (&'static str, String) {
        if self.r.below(1000) < u64::from(self.sw.deep) {
            let mut t = self.deep_nest();
            truncate_chars(&mut t, 8192);
            return ("W7-deepnest", t);
        }
        if self.r.below(100_000) < u64::from(self.sw.large) {
            return ("W10-large", self.large_doc());
        }
        if self.r.below(1000) < u64::from(self.sw.many) {
            let mut t = self.many_things();
            truncate_chars(&mut t, 8192);
            return ("W9-many", t);
        }
        let total: u32 = self.sw.w.iter().sum();
        let mut k = self.r.below(u64::from(total)) as u32;
        let mut which = 0;
        for (i, w) in self.sw.w.iter().enumerate() {
            if k < *w {
                which = i;
                break;
            }
            k -= *w;
        }
        let (name, mut t) = match which {
            0 => ("W1-corpus", self.corpus_doc()),
            1 => ("W2-mutated", self.mutated()),
            2 => ("W3-rendered", self.rendered_stream()),
            3 => {
                if self.r.chance(1, 2) {
                    ("W4-soup", self.soup())
                } else {
                    ("W4-linesoup", self.line_soup())
                }
            }
            _ => ("W6-splice", self.splice()),
        };
        truncate_chars(&mut t, 8192);
        (name, t)
    }

    /// Draw a buffer capacity: half of the time from the capacities the code and the documentation
    /// name, otherwise any value from the documented minimum up to a little past the string
    /// input's 128, or a large one.
    pub fn draw_capacity(r: &mut SplitMix64) -> usize {
        match r.below(10) {
            0..=4 => *r.pick(&[8usize, 9, 10, 11, 12, 16, 17, 24, 32, 33, 64, 128, 129, 1000]),
            5..=8 => 8 + r.usize(133),
            _ => *r.pick(&[255usize, 256, 257, 500, 4096, 65_536]),
        }
    }

    /// W10: a large, regularly structured document (one of the instruction-clock families at
    /// 10-250 kB), optionally followed by a small random tail: state that only builds up over a
    /// long input (counters, positions, table sizes) is compared across environments and
    /// interfaces, not only timed.
    pub fn large_doc(&mut self) -> String {
        let fam = *self.r.pick(&crate::scale::FAMILIES);
        let size = *self.r.pick(&[10_000usize, 20_000, 40_000, 66_000, 70_000, 130_000, 250_000]);
        let mut t = crate::scale::render(fam, size);
        if self.r.chance(1, 3) {
            if !t.ends_with('\n') {
                t.push('\n');
            }
            let tail = match self.r.below(3) {
                0 => self.corpus_doc(),
                1 => self.rendered_stream(),
                _ => self.many_things(),
            };
            t.push_str(if self.r.chance(1, 2) { "---\n" } else { "...\n" });
            t.push_str(&tail);
        }
        t
    }

    /// W9: a count of things (distinct anchors, re-registered anchors, tags, documents, keys,
    /// directives) that reaches the hundreds, around the growth steps of the tables that hold them
    /// (a std HashMap grows at 3, 7, 14, 28, 56, 112, 224, 448 entries), followed by more documents
    /// that use the same kind of thing again.
    pub fn many_things(&mut self) -> String {
        let n = *self.r.pick(&[7usize, 8, 14, 15, 16, 17, 28, 29, 31, 32, 33, 47, 48, 56, 57, 63, 64, 65, 100, 112, 113, 114, 127, 128, 224, 225, 255, 256, 300, 449]);
        let mut s = String::new();
        let kind = self.r.below(7);
        let flow = self.r.chance(1, 3);
        let explicit_end = self.r.chance(1, 2);
        match kind {
            0 | 1 => {
                // n distinct anchors in one document, then documents that define and use anchors again
                if flow {
                    s.push('[');
                }
                for k in 0..n {
                    if flow {
                        s.push_str(&format!("&n{k} x, "));
                    } else {
                        s.push_str(&format!("- &n{k} x\n"));
                    }
                }
                if flow {
                    s.push_str("z]\n");
                }
                if kind == 1 {
                    s.push_str(&format!("{}*n{}\n", if flow { "--- " } else { "- " }, self.r.usize(n)));
                }
                let more = 1 + self.r.usize(3);
                for d in 0..more {
                    if explicit_end {
                        s.push_str("...\n");
                    }
                    s.push_str(&format!("---\n- &m{d} a\n- *m{d}\n- &k{d} [b]\n- *k{d}\n"));
                }
            }
            6 => {
                // n-1 anchors, then a collection that aliases ITSELF (the anchor is still open),
                // in the same document or in the next one
                let new_doc = self.r.chance(1, 2);
                for k in 0..n.saturating_sub(1) {
                    s.push_str(&if new_doc { format!("--- &n{k} x\n") } else { format!("- &n{k} x\n") });
                }
                s.push_str(if new_doc { "--- " } else { "- " });
                s.push_str(*self.r.pick(&["&self [*self]\n", "&self {k: *self}\n", "&self [a, [b, *self]]\n", "&self\n  - *self\n", "&self {*self : v}\n"]));
            }
            2 => {
                // the same name re-registered n times
                for _ in 0..n {
                    s.push_str("- &r x\n- *r\n");
                }
                s.push_str("--- &r y\n--- *r\n");
            }
            3 => {
                // n documents
                for k in 0..n.min(300) {
                    s.push_str(if k % 3 == 0 { "--- &a x\n" } else if k % 3 == 1 { "--- !t y\n...\n" } else { "---\n" });
                }
            }
            4 => {
                // n tagged nodes / keys
                for k in 0..n {
                    s.push_str(&format!("k{k}: !t{k} v\n"));
                }
                s.push_str("--- !t0 x\n");
            }
            _ => {
                // n directives (an error after the first duplicate, but the scanner sees them all)
                for k in 0..n.min(120) {
                    s.push_str(&format!("%TAG !h{k}! tag:x,{k}:\n"));
                }
                s.push_str("--- !h1!a b\n...\n%TAG !h1! other:\n--- !h1!a c\n");
            }
        }
        s
    }

    /// W7: nesting around the limits that matter (the u8 flow-level counter, a few hundred
    /// levels of block nesting), optionally closed, optionally with content.
    pub fn deep_nest(&mut self) -> String {
        let d = *self.r.pick(&[63usize, 64, 127, 128, 200, 254, 255, 256, 257, 258, 300, 511, 512, 1000, 1500]);
        let open = *self.r.pick(&["[", "{", "[{", "{a: ", "[{a: ", "[a, ", "- ", "? ", "- ? ", "- - k: ", "- [", "? {", "[}", "{]", "[ a, b: c },", "{a: [b}, ", "[a]: {", "- [}\n"]);
        let mut s = String::new();
        if self.r.chance(1, 6) {
            s.push_str("--- ");
        }
        for _ in 0..d {
            s.push_str(open);
        }
        match self.r.below(4) {
            0 => {}
            1 => s.push('a'),
            2 => {
                let w = self.word();
                s.push_str(&w);
            }
            _ => s.push_str("&x y"),
        }
        if self.r.chance(1, 2) {
            // close what can be closed
            let close: String = open.chars().rev().filter_map(|c| match c {
                '[' => Some(']'),
                '{' => Some('}'),
                _ => None,
            }).collect();
            if !close.is_empty() {
                let k = if self.r.chance(1, 4) { self.r.usize(d + 1) } else { d };
                // every closed level may itself be a key: the scanner then inserts KEY tokens
                // into the middle of its queue, level after level
                let (pre, post) = *self.r.pick(&[("", ""), ("", ""), (":", ""), ("", ":"), ("", ": v,"), (",", "")]);
                for _ in 0..k {
                    s.push_str(pre);
                    s.push_str(&close);
                    s.push_str(post);
                }
            }
        }
        if self.r.chance(1, 3) {
            s.push('\n');
        }
        s
    }

    pub fn corpus_doc(&mut self) -> String {
        let i = self.r.usize(self.corpus.docs.len());
        self.corpus.docs[i].1.clone()
    }

    pub fn mutated(&mut self) -> String {
        let base = if self.r.chance(3, 4) {
            self.corpus_doc()
        } else {
            self.rendered_stream()
        };
        let mut cs: Vec<char> = base.chars().collect();
        let n = 1 + self.r.usize(3);
        for _ in 0..n {
            self.mutate(&mut cs);
        }
        cs.into_iter().collect()
    }

    fn rand_char(&mut self) -> char {
        match self.r.below(10) {
            0..=4 => *self.r.pick(&INDICATORS),
            5 => ' ',
            6 => '\n',
            7 => *self.r.pick(&['"', '\'', '\\', '%', '@', '`', '\t', '\r', '.', '~', '\0', '\u{feff}', '\u{85}']),
            8 => *self.r.pick(&['a', 'b', '0', '1', 'x', 'e']),
            _ => {
                if self.r.chance(1, 2) {
                    self.r.pick(&NONASCII).chars().next().unwrap()
                } else {
                    lead_byte_char(self.r.usize(51))
                }
            }
        }
    }

    fn mutate(&mut self, cs: &mut Vec<char>) {
        let n = cs.len();
        match self.r.below(12) {
            11 if n > 0 => {
                // repeat a short fragment k times (k around the limits of small counters)
                let a = self.r.usize(n);
                let l = 1 + self.r.usize((n - a).min(8));
                let k = *self.r.pick(&[2usize, 3, 10, 20, 100, 254, 255, 256, 257, 300, 1000]);
                let frag: Vec<char> = cs[a..a + l].to_vec();
                let at = a + l;
                let mut ins = Vec::with_capacity(l * k);
                for _ in 0..k {
                    ins.extend_from_slice(&frag);
                }
                let tail = cs.split_off(at);
                cs.extend(ins);
                cs.extend(tail);
            }
            9 if n > 0 => {
                // repeat one character k times (k around the capacities under test)
                let i = self.r.usize(n);
                let k = *self.r.pick(&[1usize, 2, 3, 5, 7, 8, 9, 15, 16, 17, 20, 31, 32, 63, 64, 65, 127, 128, 129]);
                let c = cs[i];
                for _ in 0..k {
                    cs.insert(i, c);
                }
            }
            10 if n > 0 => {
                // expand a blank (or any position) into a mixed tab/space run
                let blanks: Vec<usize> = cs.iter().enumerate().filter(|(_, c)| **c == ' ' || **c == '\t').map(|(i, _)| i).collect();
                let i = if blanks.is_empty() { self.r.usize(n) } else { *self.r.pick(&blanks) };
                let run = self.sep_run();
                for (k, c) in run.chars().enumerate() {
                    cs.insert(i + k, c);
                }
            }
            0 if n > 0 => {
                let i = self.r.usize(n);
                cs.remove(i);
            }
            1 => {
                let i = self.r.usize(n + 1);
                let c = self.rand_char();
                cs.insert(i, c);
            }
            2 if n > 0 => {
                let i = self.r.usize(n);
                cs[i] = self.rand_char();
            }
            3 if n > 1 => {
                // duplicate a span
                let a = self.r.usize(n);
                let l = 1 + self.r.usize((n - a).min(40));
                let span: Vec<char> = cs[a..a + l].to_vec();
                let at = self.r.usize(n + 1);
                for (k, c) in span.into_iter().enumerate() {
                    cs.insert(at + k, c);
                }
            }
            4 if n > 0 => {
                // change the indent of one line
                let starts: Vec<usize> = std::iter::once(0)
                    .chain(cs.iter().enumerate().filter(|(_, c)| **c == '\n').map(|(i, _)| i + 1))
                    .filter(|i| *i < n)
                    .collect();
                let s = *self.r.pick(&starts);
                if self.r.chance(1, 2) {
                    let k = 1 + self.r.usize(4);
                    for _ in 0..k {
                        cs.insert(s, ' ');
                    }
                } else if cs[s] == ' ' {
                    cs.remove(s);
                }
            }
            5 if n > 0 => {
                // truncate: the text-level image of an early EOF
                let i = self.r.usize(n);
                cs.truncate(i);
            }
            6 if n > 1 => {
                // delete a span
                let a = self.r.usize(n);
                let l = 1 + self.r.usize((n - a).min(12));
                cs.drain(a..a + l);
            }
            7 if n > 0 => {
                // swap two adjacent characters
                let i = self.r.usize(n.saturating_sub(1).max(1));
                if i + 1 < n {
                    cs.swap(i, i + 1);
                }
            }
            _ => {
                // insert a small indicator token
                let toks = [
                    "- ", ": ", "? ", "[", "]", "{", "}", ", ", " #", "&a ", "*a", "!t ", "|\n", ">\n",
                    "---\n", "...\n", "\"", "'", "\\", "%TAG ! x\n", "|2-\n", ">+1\n", "\t",
                    // every document indicator followed by every class of terminator
                    "\n---\t", "\n...\t", "\n---\0", "\n...\0", "\n---\r\n", "\n...\r", "\n--- ", "\n... ", "\n---", "\n...",
                    "\n---a", "\n....", "\0", "\r", "\u{feff}",
                    // escape mechanisms with multi-byte / truncated values
                    "%C3%A9", "%E2%82%AC", "%F0%9F%98%80", "%21", "%", "%C3", "!%C3%A9 ", "!<%E2%82%AC> ", "\\U0001F600", "\\u00e9", "\\x", "\\u12",
                    // numbers at type limits (as directive versions, indentation indicators, scalars, escapes)
                    "%YAML 1.4294967296\n", "%YAML 4294967295.9999999999\n", "%YAML 1.99999999999999999999\n", "9223372036854775808", "18446744073709551616",
                    "4294967296", "65536", "1e+", "0x", "\\U7FFFFFFF", "\\UFFFFFFFF", "\\U00110000", "\\uD800", "\\xFF", "|99999999999\n", ">4294967296\n",
                    // directives after an explicit document end
                    "...\n%YAML 1.2\n", "...\n%YAML 1.2\n%YAML 1.2\n---\n", "...\n%TAG !e! x\n",
                ];
                let t = *self.r.pick(&toks);
                let at = self.r.usize(n + 1);
                for (k, c) in t.chars().enumerate() {
                    cs.insert(at + k, c);
                }
            }
        }
    }

    pub fn soup(&mut self) -> String {
        let n = self.r.usize(48);
        let mut s = String::new();
        for _ in 0..n {
            s.push(self.rand_char());
        }
        s
    }

    pub fn line_soup(&mut self) -> String {
        let lines = 1 + self.r.usize(10);
        let mut s = String::new();
        for _ in 0..lines {
            let ind = self.r.usize(6);
            for _ in 0..ind {
                s.push(' ');
            }
            let toks = 1 + self.r.usize(5);
            for _ in 0..toks {
                match self.r.below(12) {
                    0 => s.push_str("- "),
                    1 => s.push_str("? "),
                    2 => s.push_str(": "),
                    3 => s.push_str("k: "),
                    4 => s.push_str("[a, "),
                    5 => s.push_str("{a: "),
                    6 => s.push_str("] "),
                    7 => s.push_str("} "),
                    8 => s.push_str("|"),
                    9 => s.push_str("\"q "),
                    10 => s.push_str("&x *x "),
                    _ => {
                        let w = self.word();
                        s.push_str(&w);
                        s.push(' ');
                    }
                }
            }
            s.push('\n');
        }
        s
    }

    pub fn splice(&mut self) -> String {
        let a = if self.r.chance(1, 2) { self.corpus_doc() } else { self.rendered_stream() };
        let b = if self.r.chance(1, 2) { self.corpus_doc() } else { self.rendered_stream() };
        let sep = *self.r.pick(&["---\n", "...\n", "...\n---\n", "--- ", "", "\n", "... # c\n"]);
        let mut s = a;
        if self.r.chance(1, 5) && !s.is_empty() {
            // cut the first stream somewhere
            let n = s.chars().count();
            let k = self.r.usize(n);
            truncate_chars(&mut s, k);
        }
        s.push_str(sep);
        s.push_str(&b);
        s
    }

    // ------------------------------------------------------------------ W3: tree renderer

    /// A separation run: usually one space, sometimes a run of blanks whose length sits around the
    /// buffer capacities under test, mixing tabs and spaces in the orders that matter (the kind of
    /// blank that decides a check may be only at the start, only at the end, or interleaved).
    fn sep(&mut self) -> String {
        if !self.r.chance(1, 40) {
            return " ".into();
        }
        let n = *self.r.pick(&[2usize, 3, 7, 8, 9, 15, 16, 17, 18, 31, 32, 33, 63, 64, 65, 127, 128, 129, 130]);
        let mut s = String::with_capacity(n);
        let pat = self.r.below(7);
        for k in 0..n {
            let tab = match pat {
                0 => false,
                1 => true,
                2 => k == 0,
                3 => k == n - 1,
                4 => k % 2 == 0,
                5 => k < n / 2,
                _ => self.r.chance(1, 4),
            };
            s.push(if tab { '\t' } else { ' ' });
        }
        s
    }

    /// Like `sep`, but always a run.
    fn sep_run(&mut self) -> String {
        loop {
            let s = self.sep();
            if s.len() > 1 {
                return s;
            }
        }
    }

    fn word(&mut self) -> String {
        if self.r.below(1000) < u64::from(self.sw.long_scalar) {
            let len = *self.r.pick(&[6usize, 7, 8, 9, 14, 15, 16, 17, 31, 32, 63, 64, 65, 126, 127, 128, 129, 200, 255, 256, 999, 1000, 1001, 1022, 1023, 1024, 1025, 1026]);
            let mut s = String::new();
            for i in 0..len {
                s.push((b'a' + ((i * 7 + len) % 26) as u8) as char);
            }
            if self.r.chance(1, 2) {
                // an indicator / multi-byte character INSIDE the word, at an offset around a capacity
                // or near the end, followed by ordinary characters
                let special = *self.r.pick(&[":", "#", ",", "-", "?", "!", "&", "*", "'", "\"", "%", "@", "`", "|", ">", "\u{e9}", "\u{4e2d}", "::", ":#", "#:"]);
                let targets = [len.saturating_sub(1), len.saturating_sub(2), len / 2, 7, 8, 15, 16, 17, 63, 64, 126, 127, 128, 129, 254, 255, 256];
                let at = (*self.r.pick(&targets)).min(len);
                s.insert_str(at, special);
            }
            return s;
        }
        if self.r.chance(1, 25) {
            return (*self.r.pick(&NUMBERS)).to_string();
        }
        if self.r.below(1000) < u64::from(self.sw.nonascii) {
            let mut s = String::new();
            let k = 1 + self.r.usize(3);
            for _ in 0..k {
                if self.r.chance(1, 3) {
                    s.push(lead_byte_char(self.r.usize(51)));
                } else {
                    s.push_str(*self.r.pick(&NONASCII));
                }
                if self.r.chance(1, 2) {
                    s.push_str(*self.r.pick(&WORDS));
                }
            }
            return s.replace(['\u{85}', '\u{2028}'], "x");
        }
        (*self.r.pick(&WORDS)).to_string()
    }

    fn props(&mut self, out: &mut String) -> Option<String> {
        let mut anchored = None;
        if self.r.chance(1, 8) {
            let name = if !self.anchors_cur.is_empty() && self.r.chance(1, 5) {
                // re-register an existing name (anchors can be overridden)
                self.anchors_cur[self.r.usize(self.anchors_cur.len())].clone()
            } else if self.r.chance(1, 10) {
                (*self.r.pick(&["\u{e9}", "a\u{4e2d}", "\u{1F600}x", "\u{df}1", "a\u{a0}b", "a-b", "a.b", "a:b"])).to_string()
            } else {
                format!("a{}", self.next_anchor)
            };
            self.next_anchor += 1;
            out.push('&');
            out.push_str(&name);
            out.push(' ');
            anchored = Some(name.clone());
            self.anchors_cur.push(name);
        }
        if self.e_handle && self.r.chance(1, 4) {
            out.push_str(*self.r.pick(&["!e!x ", "!e!y%21 ", "!e! ", "!e!\u{e9} "]));
        } else if self.r.chance(1, 10) {
            out.push_str(*self.r.pick(&[
                "!!str ", "!!int ", "!t ", "!e!x ", "!<tag:x.y,2000:z> ", "! ", "!!map ", "!!seq ", "!!float ", "!!bool ", "!!null ",
                // URI escapes in tags: one, two, three and four byte UTF-8 sequences, truncated and invalid ones
                "!a%21b ", "!%C3%A9 ", "!e!%E2%82%AC ", "!<tag:%F0%9F%98%80> ", "!%C3 ", "!%E2%82 ", "!%zz ", "!%4 ", "!x%FF ", "!%C3%28 ",
            ]));
        }
        anchored
    }

    fn alias(&mut self) -> Option<String> {
        if !self.open_anchors.is_empty() && self.r.chance(1, 4) {
            // an alias to a collection that is still open (self-reference)
            let i = self.r.usize(self.open_anchors.len());
            return Some(format!("*{}", self.open_anchors[i]));
        }
        let cross = self.r.below(1000) < u64::from(self.sw.cross_alias);
        if cross && !self.anchors_prev.is_empty() {
            self.made_cross_alias = true;
            let i = self.r.usize(self.anchors_prev.len());
            return Some(format!("*{}", self.anchors_prev[i]));
        }
        if !self.anchors_cur.is_empty() {
            let i = self.r.usize(self.anchors_cur.len());
            return Some(format!("*{}", self.anchors_cur[i]));
        }
        None
    }

    fn dq(&mut self) -> String {
        let mut s = String::from("\"");
        // pad so that the escape lands at a drawn offset (modulo the capacities that matter)
        // so that an escape lands at every offset modulo the capacities in play
        let pad = if self.r.chance(1, 4) { *self.r.pick(&[55usize, 60, 61, 62, 63, 64, 65, 119, 123, 124, 125, 126, 127, 128, 129]) } else { self.r.usize(20) };
        for i in 0..pad {
            s.push((b'a' + (i % 26) as u8) as char);
        }
        let k = self.r.usize(4);
        for _ in 0..k {
            match self.r.below(12) {
                0 => s.push_str("\\x41"),
                1 => s.push_str("\\u00e9"),
                2 => s.push_str("\\U0001F600"),
                3 => s.push_str("\\n"),
                4 => s.push_str("\\t"),
                5 => s.push_str("\\\""),
                6 => s.push_str("\\\\"),
                7 => s.push_str("\\\n   "),
                8 => s.push_str(" \n  \n  "),
                9 => {
                    let (a, b) = (*self.r.pick(&ESCAPES), *self.r.pick(&ESCAPES));
                    s.push_str(a);
                    s.push_str(b);
                }
                10 => s.push_str(*self.r.pick(&["\\xZ1", "\\", "\\\r\n  ", "  \n", "\t\n\t", "\\ ", "\\u12", "\n... ", "\\N\\_\\L\\P\\e\\0\\a\\b\\v\\f\\r\\/"])),
                _ => {
                    let w = self.word();
                    s.push_str(&w.replace(['"', '\\'], ""));
                }
            }
        }
        s.push('"');
        s
    }

    fn sq(&mut self) -> String {
        let mut s = String::from("'");
        let k = 1 + self.r.usize(4);
        for _ in 0..k {
            match self.r.below(10) {
                0 => s.push_str("''"),
                1 => s.push_str(" \n  "),
                2 => s.push_str("\n\n   "),
                3 => s.push_str("  \n\t "),
                4 => s.push_str("\t\n"),
                5 => s.push_str("\n--- "),
                6 => s.push_str(" # not a comment "),
                7 => s.push_str("\\"),
                _ => {
                    let w = self.word();
                    s.push_str(&w.replace('\'', "''"));
                }
            }
        }
        if !self.r.chance(1, 30) {
            s.push('\'');
        }
        s
    }

    /// An inline (flow-context-safe) scalar.
    fn inline_scalar(&mut self, in_flow: bool, as_key: bool) -> String {
        match self.r.below(10) {
            0 => {
                if self.r.chance(1, 2) {
                    let w = self.word().replace('\'', "''");
                    format!("'{w}'")
                } else {
                    let s = self.sq();
                    if as_key { s.replace('\n', " ") } else { s }
                }
            }
            1 | 2 => {
                let s = self.dq();
                if as_key { s.replace('\n', " ") } else { s }
            }
            3 if !as_key => String::new(),
            _ => {
                let mut w = self.word();
                if in_flow {
                    w = w.replace([',', '[', ']', '{', '}'], "_");
                }
                if as_key || in_flow {
                    w = w.replace(": ", "_");
                }
                if w.is_empty() {
                    w.push('a');
                }
                w
            }
        }
    }

    fn block_scalar(&mut self, indent: usize, out: &mut String) {
        // header
        out.push(if self.r.chance(1, 2) { '|' } else { '>' });
        let explicit = self.r.chance(1, 4);
        let extra = 1 + self.r.usize(3);
        // target content indents around capacity-2 for the capacities under test
        let content_indent = if self.r.chance(1, 4) {
            let t = *self.r.pick(&[5usize, 6, 7, 8, 13, 14, 15, 16, 17, 30, 62, 63, 64, 125, 126, 127, 128, 129, 130, 200]);
            t.max(indent + 1)
        } else {
            indent + extra
        };
        let ind_ind = content_indent.saturating_sub(indent);
        let chomp = *self.r.pick(&["", "", "-", "+"]);
        if explicit && (1..=9).contains(&ind_ind) {
            if self.r.chance(1, 2) {
                out.push_str(&format!("{ind_ind}{chomp}"));
            } else {
                out.push_str(&format!("{chomp}{ind_ind}"));
            }
        } else if self.r.chance(1, 40) {
            out.push_str(*self.r.pick(&["0", "10", "99", "00", "1+1", "+-", "9999999999", "4294967296"]));
        } else {
            out.push_str(chomp);
        }
        if self.r.chance(1, 8) {
            out.push_str(" # comment");
        }
        out.push('\n');
        let lines = self.r.usize(5);
        for _ in 0..lines {
            match self.r.below(8) {
                0 => out.push('\n'),
                1 => {
                    // whitespace-only line, possibly longer than the indent
                    let k = self.r.usize(content_indent + 3);
                    for _ in 0..k {
                        out.push(' ');
                    }
                    out.push('\n');
                }
                3 if self.r.chance(1, 2) => {
                    // a line led by fewer spaces than the indent, then a TAB (dedent + tab)
                    let k = self.r.usize(content_indent + 1);
                    for _ in 0..k {
                        out.push(' ');
                    }
                    out.push('\t');
                    let w = self.word();
                    out.push_str(&w);
                    out.push('\n');
                }
                2 => {
                    // more-indented line
                    for _ in 0..content_indent + 1 + self.r.usize(3) {
                        out.push(' ');
                    }
                    let w = self.word();
                    out.push_str(&w);
                    out.push('\n');
                }
                _ => {
                    for _ in 0..content_indent {
                        out.push(' ');
                    }
                    let k = 1 + self.r.usize(4);
                    for j in 0..k {
                        if j > 0 {
                            out.push(' ');
                        }
                        let w = self.word();
                        out.push_str(&w);
                    }
                    if self.r.chance(1, 10) {
                        out.push_str("  ");
                    }
                    out.push('\n');
                }
            }
        }
        if self.r.chance(1, 10) {
            // strip the final newline: block scalar ending at EOF
            out.pop();
        }
    }

    fn flow_node(&mut self, depth: usize, out: &mut String) {
        if self.nodes_left == 0 || depth >= self.sw.max_depth {
            let s = self.inline_scalar(true, false);
            out.push_str(&s);
            return;
        }
        self.nodes_left -= 1;
        match self.r.below(10) {
            0 | 1 => {
                let open = self.props(out);
                if let Some(a) = &open {
                    self.open_anchors.push(a.clone());
                }
                out.push('[');
                let n = self.r.usize(4);
                for i in 0..n {
                    if i > 0 {
                        if self.r.chance(1, 6) {
                            out.push_str(",\n  ");
                        } else {
                            out.push(',');
                            let sp = self.sep();
                            out.push_str(&sp);
                        }
                    }
                    if self.r.chance(1, 6) {
                        // single-pair mapping inside a sequence
                        let k = self.inline_scalar(true, true);
                        out.push_str(&k);
                        out.push_str(": ");
                    }
                    self.flow_node(depth + 1, out);
                }
                if self.r.chance(1, 10) {
                    out.push(',');
                }
                out.push(']');
                if open.is_some() {
                    self.open_anchors.pop();
                }
            }
            2 | 3 => {
                let open = self.props(out);
                if let Some(a) = &open {
                    self.open_anchors.push(a.clone());
                }
                out.push('{');
                let n = self.r.usize(4);
                for i in 0..n {
                    if i > 0 {
                        out.push_str(", ");
                    }
                    if self.r.chance(1, 8) {
                        out.push_str("? ");
                    }
                    let k = self.inline_scalar(true, true);
                    out.push_str(&k);
                    if self.r.chance(7, 8) {
                        out.push_str(if k.starts_with('"') && self.r.chance(1, 3) { ":" } else { ": " });
                        self.flow_node(depth + 1, out);
                    }
                }
                out.push('}');
                if open.is_some() {
                    self.open_anchors.pop();
                }
            }
            4 => {
                if let Some(a) = self.alias() {
                    out.push_str(&a);
                } else {
                    out.push('x');
                }
            }
            _ => {
                let _ = self.props(out);
                let s = self.inline_scalar(true, false);
                out.push_str(&s);
            }
        }
    }

    /// Render a block node whose first line starts at the current position of `out` (which is at
    /// column `col` conceptually inside a parent at `indent`).
    fn block_node(&mut self, indent: usize, depth: usize, out: &mut String, after_key: bool) {
        if self.nodes_left == 0 || depth >= self.sw.max_depth {
            let s = self.inline_scalar(false, false);
            out.push_str(&s);
            out.push('\n');
            return;
        }
        self.nodes_left -= 1;
        let step = *self.r.pick(&[1usize, 2, 2, 2, 3, 4, 7]);
        match self.r.below(12) {
            0..=2 => {
                // block sequence
                let open = self.props(out);
                if let Some(a) = &open {
                    self.open_anchors.push(a.clone());
                }
                let ind = if after_key {
                    out.push('\n');
                    if self.r.chance(1, 3) { indent } else { indent + step }
                } else {
                    indent
                };
                let n = 1 + self.r.usize(3);
                for i in 0..n {
                    if i > 0 || after_key {
                        for _ in 0..ind {
                            out.push(' ');
                        }
                    }
                    out.push('-');
                    if self.r.chance(1, 25) {
                        out.push('\t');
                    } else if self.r.chance(1, 10) {
                        out.push('\n');
                        for _ in 0..ind + 2 {
                            out.push(' ');
                        }
                    } else {
                        let sp = self.sep();
                        out.push_str(&sp);
                    }
                    self.block_node(ind + 2, depth + 1, out, false);
                }
                if open.is_some() {
                    self.open_anchors.pop();
                }
            }
            3..=5 => {
                // block mapping
                let has_props = self.r.chance(1, 8);
                if has_props || after_key {
                    if has_props {
                        let _ = self.props(out);
                    }
                    out.push('\n');
                }
                let ind = if after_key || has_props { indent + step } else { indent };
                let n = 1 + self.r.usize(3);
                for i in 0..n {
                    if i > 0 || after_key || has_props {
                        for _ in 0..ind {
                            out.push(' ');
                        }
                    }
                    if self.r.chance(1, 10) {
                        out.push_str("? ");
                        self.block_node(ind + 2, depth + 1, out, false);
                        for _ in 0..ind {
                            out.push(' ');
                        }
                        out.push_str(": ");
                        self.block_node(ind + 2, depth + 1, out, false);
                    } else {
                        let k = self.inline_scalar(false, true);
                        let k = if k.is_empty() { "k".to_string() } else { k };
                        out.push_str(&k);
                        out.push(':');
                        if self.r.chance(1, 12) {
                            out.push('\n');
                        } else {
                            if self.r.chance(1, 25) {
                                out.push('\t');
                            } else {
                                let sp = self.sep();
                                out.push_str(&sp);
                            }
                            self.block_node(ind, depth + 1, out, true);
                        }
                    }
                }
            }
            6 => {
                let _ = self.props(out);
                self.block_scalar(indent.saturating_sub(if after_key { 0 } else { 2 }), out);
            }
            7 => {
                self.flow_node(depth + 1, out);
                if self.r.chance(1, 8) {
                    out.push_str(" # c");
                }
                out.push('\n');
            }
            8 => {
                if let Some(a) = self.alias() {
                    out.push_str(&a);
                } else {
                    out.push('y');
                }
                out.push('\n');
            }
            _ => {
                let _ = self.props(out);
                let s = self.inline_scalar(false, false);
                out.push_str(&s);
                if self.r.chance(1, 6) {
                    // multi-line plain continuation
                    out.push('\n');
                    for _ in 0..indent + 1 {
                        out.push(' ');
                    }
                    let w = self.word();
                    out.push_str(&w);
                }
                if self.r.chance(1, 10) {
                    out.push_str(*self.r.pick(&[" # comment é", "\t# c", " \t", "\t", "  "]));
                }
                out.push('\n');
            }
        }
    }

    pub fn rendered_stream(&mut self) -> String {
        let docs = match self.r.below(10) {
            0..=4 => 1,
            5..=7 => 2,
            8 => 3,
            _ => 4,
        };
        let mut out = String::new();
        self.anchors_prev.clear();
        self.anchors_cur.clear();
        self.e_handle = false;
        let declare_e = self.r.chance(1, 6);
        let mut prev_explicit_end = false;
        for d in 0..docs {
            let mut doc = String::new();
            self.nodes_left = 1 + self.r.usize(self.sw.max_nodes);
            // a document after an explicit `...` may be bare (no `---`)
            let mut explicit = if d > 0 && prev_explicit_end { self.r.chance(1, 2) } else { d > 0 || self.r.chance(1, 3) };
            if declare_e && (d == 0 || self.r.chance(1, 3)) {
                // a %TAG !e! directive in the first document (and sometimes again later): later
                // documents that use !e! without it are valid only under keep_tags(true)
                doc.push_str(*self.r.pick(&["%TAG !e! tag:e.com,2000:\n", "%TAG !e! !local-\n", "%YAML 1.2\n%TAG !e! tag:e.com,2000:\n"]));
                self.e_handle = true;
                explicit = true;
            } else if self.r.chance(1, 40) {
                // long blank runs at the separators inside directives
                let (a, b) = (self.sep_run(), self.sep_run());
                if self.r.chance(1, 2) {
                    doc.push_str(&format!("%YAML{a}1.2\n"));
                } else {
                    doc.push_str(&format!("%TAG{a}!e!{b}tag:e.com,2000:\n"));
                    self.e_handle = true;
                }
                explicit = true;
            } else if self.r.chance(1, 40) {
                // %YAML with version components at and around integer limits
                let a = *self.r.pick(&NUMBERS);
                let b = *self.r.pick(&NUMBERS);
                doc.push_str(&format!("%YAML {a}.{b}\n"));
                explicit = true;
            } else if self.r.chance(1, 10) {
                doc.push_str(*self.r.pick(&[
                    "%YAML 1.2\n", "%TAG !e! tag:e.com,2000:\n", "%TAG ! tag:x/\n", "%FOO bar\n", "# comment\n",
                    "%TAG !e! tag:%C3%A9/\n", "%TAG !! tag:%F0%9F%98%80:\n", "%YAML 1.2\n%YAML 1.2\n", "%TAG !e! a\n%TAG !e! b\n", "%YAML 1.1 # c\n", "%TAG !e! tag:%E2\n",
                ]));
                explicit = true;
            }
            if explicit {
                doc.push_str("---");
                doc.push(if self.r.chance(1, 2) { '\n' } else { ' ' });
            }
            if self.r.chance(1, 30) {
                // empty document
            } else {
                self.block_node(0, 0, &mut doc, false);
            }
            prev_explicit_end = self.r.chance(1, 4);
            if prev_explicit_end {
                if !doc.ends_with('\n') {
                    doc.push('\n');
                }
                doc.push_str(*self.r.pick(&["...\n", "...\n", "... # end\n", "...\n\n"]));
            }
            if self.r.below(1000) < u64::from(self.sw.crlf) {
                doc = doc.replace('\n', "\r\n");
            }
            out.push_str(&doc);
            let cur = std::mem::take(&mut self.anchors_cur);
            self.anchors_prev.extend(cur);
        }
        if self.r.chance(1, 12) {
            // no trailing newline
            while out.ends_with('\n') || out.ends_with('\r') {
                out.pop();
            }
        }
        out
    }
}

pub fn truncate_chars(s: &mut String, n: usize) {
    if let Some((i, _)) = s.char_indices().nth(n) {
        s.truncate(i);
    }
}

/// Texts for the decoder (C18): short and long, heavy in Latin-1, CJK and astral characters,
/// first character ASCII, no NUL.
pub fn decoder_text(g: &mut Gen<'_>) -> (&'static str, String) {
    let (name, mut t) = match g.r.below(22) {
        21 => {
            // sized texts: the encoded length lands on / next to the lengths the decode loop's
            // arithmetic depends on (len/10, growth steps, 4 KiB and 64 KiB blocks)
            let n = match g.r.below(100) {
                0..=84 => *g.r.pick(&[
                    0usize, 1, 2, 3, 4, 5, 7, 8, 9, 10, 11, 15, 16, 17, 19, 20, 21, 29, 30, 31, 39, 40, 41, 49, 50, 51, 99, 100, 101,
                ]),
                85..=97 => *g.r.pick(&[2047usize, 2048, 2049, 4095, 4096, 4097, 8191, 8192, 8193]),
                _ => *g.r.pick(&[32767usize, 32768, 32769, 65535, 65536, 65537]),
            };
            let dens = *g.r.pick(&[0u64, 1, 3, 10]);
            let mut s = String::new();
            for i in 0..n {
                if i == 0 {
                    s.push('k');
                } else if g.r.below(10) < dens {
                    s.push(*g.r.pick(&['é', '中', '語', '😀', '€']));
                } else if i % 97 == 96 {
                    s.push('\n');
                } else {
                    s.push((b'a' + (i % 26) as u8) as char);
                }
            }
            ("D-sized", s)
        }
        0..=5 => {
            // short expanding texts: the condition under which the growth step matters
            let n = 1 + g.r.usize(12);
            let mut s = String::new();
            s.push(*g.r.pick(&['A', 'a', '-', '[', '"', '#', ' ', 'k']));
            for _ in 1..n {
                match g.r.below(6) {
                    0 => s.push(*g.r.pick(&['a', ' ', ':', '-', '\n'])),
                    1 => s.push(*g.r.pick(&['é', 'ß', 'ü', 'Ω'])),
                    2 | 3 => s.push(*g.r.pick(&['中', '日', '本', '語', '€', '\u{FFFD}', '\u{FEFF}'])),
                    _ => s.push(*g.r.pick(&['😀', '𝄞', '𐍈'])),
                }
            }
            ("D-short", s)
        }
        6..=9 => {
            // long expanding text
            let n = 16 + g.r.usize(2000);
            let mut s = String::from("k: ");
            let dens = 1 + g.r.below(10);
            for i in 0..n {
                if g.r.below(10) < dens {
                    s.push(*g.r.pick(&['é', '中', '語', '😀', 'ß', '€', '\u{FFFD}']));
                } else if i % 61 == 60 {
                    s.push_str("\nk: ");
                } else {
                    s.push((b'a' + (i % 26) as u8) as char);
                }
            }
            ("D-long", s)
        }
        _ => g.text(),
    };
    t = t.replace('\0', "0");
    // the property's domain: first character ASCII (a BOM is added by the encoder, not here)
    if !t.chars().next().is_some_and(|c| c.is_ascii() && c != '\0') {
        t.insert(0, *g.r.pick(&['a', '-', ' ', '#', '\n']));
    }
    if name != "D-sized" {
        truncate_chars(&mut t, 4096);
    }
    (name, t)
}

/// Documents in which ONE kind of thing is counted past 2^16 (and, with a larger `n`, past
/// 2^18): distinct anchors, aliases to them in reverse order, documents, keys, tagged nodes,
/// sequence entries of a nested sequence, flow entries.
pub const COUNT_KINDS: [&str; 9] = ["anchors", "anchors+aliases", "documents", "keys", "tags", "nested-entries", "flow-entries", "anchored-documents", "entries-across-documents"];
pub fn count_doc(kind: &str, n: usize) -> String {
    let mut s = String::with_capacity(n * 14 + 64);
    match kind {
        "anchors" => {
            for i in 0..n {
                s.push_str(&format!("- &a{i} x\n"));
            }
            s.push_str("- *a0\n- *a65535\n- *a65536\n");
            s.push_str(&format!("- *a{}\n--- *a7\n", n - 1));
        }
        "anchors+aliases" => {
            for i in 0..n {
                s.push_str(&format!("- &a{i} x\n"));
            }
            for i in (0..n).rev().step_by(257) {
                s.push_str(&format!("- *a{i}\n"));
            }
        }
        "documents" => {
            for _ in 0..n {
                s.push_str("--- a\n");
            }
        }
        "anchored-documents" => {
            for i in 0..n {
                s.push_str(if i % 2 == 0 { "--- &a x\n" } else { "--- [&a y, *a]\n" });
            }
        }
        "keys" => {
            for i in 0..n {
                s.push_str(&format!("k{i}: v\n"));
            }
        }
        "tags" => {
            s.push_str("%TAG !e! tag:e.com,2000:\n---\n");
            for i in 0..n {
                s.push_str(&format!("- !e!t{i} v\n"));
            }
        }
        "entries-across-documents" => {
            // every document stays below the count, the stream passes it
            for d in 0..3 {
                s.push_str(&format!("--- &d{d}\n"));
                for _ in 0..n * 2 / 5 {
                    s.push_str("- x\n");
                }
            }
        }
        "nested-entries" => {
            s.push_str("a:\n  b:\n");
            for _ in 0..n {
                s.push_str("    - x\n");
            }
        }
        _ => {
            s.push('[');
            for _ in 0..n {
                s.push_str("x, ");
            }
            s.push_str("y]\n");
        }
    }
    s
}

/// Every split of a core-schema tag URI between a %TAG prefix and the tag suffix (also the
/// verbatim and the `!!` spelling), on every kind of node text: the loaders decide by tag how a
/// scalar is resolved, whatever spelling delivered the tag.
pub const SPLIT_TYPES: [&str; 18] = ["int", "float", "bool", "null", "str", "map", "seq", "binary", "in", "intx", "", "timestamp", "merge", "set", "omap", "pairs", "value", "yaml"];
pub const SPLIT_VALUES: [&str; 11] = ["12", "~", "\"12\"", "'x'", "|\n  12", "[1]", "0x1F", "\u{e9}", "a\u{4e2d}b=", "\u{1F600}", "QUJD"];
const CORE: &str = "tag:yaml.org,2002:";
pub fn tag_split_count() -> u64 {
    SPLIT_TYPES.iter().map(|t| (CORE.len() + t.len() + 1 + 2) as u64).sum::<u64>() * SPLIT_VALUES.len() as u64
}
pub fn nth_tag_split(i: u64) -> String {
    let v = SPLIT_VALUES[(i % SPLIT_VALUES.len() as u64) as usize];
    let mut k = i / SPLIT_VALUES.len() as u64;
    for t in SPLIT_TYPES {
        let uri = format!("{CORE}{t}");
        let n = (uri.len() + 1 + 2) as u64;
        if k < n {
            let k = k as usize;
            return if k <= uri.len() {
                format!("%TAG !e! {}\n--- !e!{} {v}\n", &uri[..k], &uri[k..])
            } else if k == uri.len() + 1 {
                format!("--- !<{uri}> {v}\n")
            } else {
                format!("--- !!{t} {v}\n")
            };
        }
        k -= n;
    }
    String::new()
}

/// What follows a dedent: a block nest of d levels (sequence entries on one line, or mappings
/// by indentation), closed partly or completely by one less-indented line that starts with
/// every kind of node or key. The tokens queued for the closed levels and the candidate key of
/// the new line meet in the scanner's queue.
pub const DEDENT_DEPTHS: [usize; 8] = [1, 2, 3, 4, 5, 6, 9, 17];
pub const DEDENT_CONTS: [&str; 22] = [
    "{a: b}: c", "[a, b]: c", "[a: b]: c", "[{a: b}]: c", "? k\n: v", "k: v", "- y", "*x", "&x y: z", "!t k: v", "\"q\": v", "'q': v", "k:", "- - y", "...", "--- z", "# c",
    "k: |\n  t", "? [a: b]\n: c", "{a: b}", "k: {a: b}: c", "- {a: b}: c",
];
pub fn dedent_count() -> u64 {
    (2 * DEDENT_DEPTHS.len() * 3 * DEDENT_CONTS.len()) as u64
}
pub fn nth_dedent(i: u64) -> String {
    let cont = DEDENT_CONTS[(i % DEDENT_CONTS.len() as u64) as usize];
    let i = i / DEDENT_CONTS.len() as u64;
    let to = (i % 3) as usize;
    let i = i / 3;
    let d = DEDENT_DEPTHS[(i % DEDENT_DEPTHS.len() as u64) as usize];
    let by_indent = (i / DEDENT_DEPTHS.len() as u64) % 2 == 1;
    let mut s = String::from("top:\n");
    let target;
    if by_indent {
        // k1:\n  k2:\n    ... x
        for l in 0..d {
            s.push_str(&" ".repeat(2 + 2 * l));
            s.push_str(&format!("k{l}:\n"));
        }
        s.push_str(&" ".repeat(2 + 2 * d));
        s.push_str("x\n");
        target = [0, 2, 2 + 2 * (d / 2)][to];
    } else {
        s.push_str("  ");
        for _ in 0..d {
            s.push_str("- ");
        }
        s.push_str("x\n");
        target = [0, 2, 2 + 2 * (d / 2)][to];
    }
    let pad = " ".repeat(target);
    for (k, line) in cont.split('\n').enumerate() {
        if k > 0 {
            s.push('\n');
        }
        s.push_str(&pad);
        s.push_str(line);
    }
    s.push('\n');
    s
}

/// Special scalars in key and value position (merge keys, the value key, nulls, booleans,
/// numbers in every base, timestamps) around small collections and aliases: features that a
/// loader keys on the TEXT of a scalar.
pub const SPECIAL_KEYS: [&str; 22] = [
    "<<", "=", "~", "null", "Null", "true", "No", ".nan", "-.inf", "0o17", "0x1F", "+1", "1_000", "1e3", "2001-12-14", "!!merge <<", "\"<<\"", "? <<", "*b", "[<<]", "&k <<", "",
];
pub const SPECIAL_VALUES: [&str; 16] = [
    "*b", "[*b, 2]", "[oops, *b]", "[[]]", "[*b, *c]", "{x: 2}", "[]", "{}", "1", "~", "<<", "[<<, *b]", "{<<: *b}", "!!merge *b", "&m {<<: *b}", "",
];
pub fn special_key_count() -> u64 {
    (SPECIAL_KEYS.len() * SPECIAL_VALUES.len() * 3) as u64
}
pub fn nth_special_key(i: u64) -> String {
    let v = SPECIAL_VALUES[(i % SPECIAL_VALUES.len() as u64) as usize];
    let i = i / SPECIAL_VALUES.len() as u64;
    let k = SPECIAL_KEYS[(i % SPECIAL_KEYS.len() as u64) as usize];
    let pre = "b: &b {x: 1, y: [1]}\nc: &c {z: 3}\n";
    match (i / SPECIAL_KEYS.len() as u64) % 3 {
        0 => format!("{pre}m:\n  {k}: {v}\n  x: 9\n"),
        1 => format!("{pre}m: {{{k}: {v}, x: 9}}\n"),
        _ => format!("{pre}m:\n  - {k}: {v}\n    x: 9\n  - [{k}, {v}]\n"),
    }
}
