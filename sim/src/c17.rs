//! C17 — pull, peek and push interfaces tell the same story.
//!
//! The client's call history on the stateful `Parser` is the schedule. Reference model: the
//! trace T of plain iteration on a fresh parser over the same text in the same environment,
//! plus a cursor. Every `peek`/`next` result is checked against the model as the run proceeds;
//! `load(.., true)` and repeated `load(.., false)` are checked against T afterwards.

use crate::batch::Ctx;
use crate::c10::{event_budget, work_budget};
use crate::case::{Case, Client, Outcome};
use crate::clock::{self, Probe};
use crate::gen::{Gen, Swarm};
use crate::inputs::{InputKind, Policy};
use crate::rng::{mix, SplitMix64, Tape};
use crate::trace::{
    describe_event, ev_kind, guarded, own, with_parser, End, Guarded, IterateAll, OwnedEvent, ParserVisitor,
    Prepared, Trace,
};
use saphyr_parser::{Event, Input, Parser, ScanError, Span, SpannedEventReceiver};
use std::sync::OnceLock;

pub const TAILS: [&[u8]; 7] = [&[], &[0], &[1], &[0, 1], &[1, 0], &[0, 0], &[1, 1]]; // 0 = peek, 1 = next

pub struct ExText {
    pub text: String,
    pub m: usize,
    pub complete: bool,
    pub offset: u64,
    pub count: u64,
}

static EX_TABLE: OnceLock<Vec<ExText>> = OnceLock::new();

fn histories(m: usize, complete: bool) -> u64 {
    if complete {
        3u64.pow(m as u32) * 7
    } else {
        3u64.pow(m as u32 + 1)
    }
}

fn build_table(ctx: &Ctx, thorough: bool) -> Vec<ExText> {
    let max_m = if thorough { 12 } else { 8 };
    let budget: u64 = if thorough { 120_000_000 } else { 2_500_000 };
    let per_m_cap: u64 = if thorough { 24 } else { 12 };
    let sw = Swarm {
        w: [3, 2, 4, 1, 1],
        max_nodes: 6,
        max_depth: 3,
        nonascii: 50,
        crlf: 50,
        cross_alias: 300,
        long_scalar: 30,
        deep: 0,
        many: 0,
        large: 0,
    };
    let mut per_m = vec![0u64; max_m + 2];
    let mut table = Vec::new();
    let mut offset = 0u64;
    let mut k = 0u64;
    // fixed texts first: known-interesting shapes (cross-document alias, error after peekable event,
    // empty stream, multi-document)
    let fixed = [
        "", "a", "&a x\n--- *a\n", "- a\n- b\n", "a: b\n", "[a, b", "a\n---\nb\n", "--- a\n...\n--- b\n", "{a: *x}",
        "? a\n: b\n", "- |\n  x\n", "\"a", "%YAML 1.2\n---\na\n", "a: &x b\nc: *x\n", "---\n---\n", "- - a\n",
    ];
    let mut cands: Vec<String> = fixed.iter().map(|s| (*s).to_string()).collect();
    while table.len() < 4000 && k < 200_000 && offset < budget {
        let text = if let Some(t) = cands.pop() {
            t
        } else {
            let mut g = Gen::new(mix(ctx.cfg.seed, 0x17E0, k), &ctx.corpus, &sw);
            k += 1;
            g.text().1
        };
        if text.chars().count() > 200 {
            continue;
        }
        let prep = Prepared::new(&text, None, false);
        clock::begin(u64::MAX, Tape::replay(vec![]));
        let t = crate::trace::reference_trace(&prep, 64);
        clock::end();
        let complete = match t.end {
            End::Complete => true,
            End::Err(_) => false,
            _ => continue,
        };
        let m = t.evs.len();
        if m > max_m {
            continue;
        }
        if per_m[m] >= per_m_cap && m < max_m {
            continue;
        }
        if m == max_m && per_m[m] >= per_m_cap {
            continue;
        }
        let count = histories(m, complete);
        if offset + count > budget && m > 4 {
            continue;
        }
        per_m[m] += 1;
        table.push(ExText { text, m, complete, offset, count });
        offset += count;
    }
    table
}

/// Large probe streams: a long first document that fills the parser's tables (thousands of
/// anchors, tag handles, keys) followed by a small document that refers back to them.
pub const PROBE_FAMILIES: [&str; 4] = ["anchors-aliases", "anchored-small-collections", "tag-directives", "map-entries"];
pub const PROBE_SIZES: [usize; 3] = [8_000, 80_000, 200_000];
pub const PROBE_TAILS: [&str; 7] = [
    "",
    "--- *a7\n",
    "--- *c7\n",
    "--- &a7 z\n--- *a7\n",
    "...\n*a7\n",
    "--- !h1!a b\n",
    "--- [*a1, &a1 x, *a1]\n--- *a1\n",
];
/// Deep nests around the widths of the counters a driver may keep (u8, u15, u16): the worker
/// threads have 256 MiB stacks, so the recursive push driver gets to 70 000 levels.
pub const DEEP_DEPTHS: [usize; 14] = [255, 256, 257, 32_767, 32_768, 65_535, 65_536, 65_537, 70_000, 131_071, 131_072, 131_073, 140_000, 150_000];
/// What follows the deep document: nothing, or further documents (state kept or released at the
/// document boundary after a deep document).
pub const DEEP_TAILS: [&str; 2] = ["a\n", "a\n--- b\n--- [c, {d: e}]\n...\n"];
pub const DEEP_OPENERS: [&str; 4] = ["- ", "? ", "- ? ", "- - k: "];
pub fn deep_count() -> u64 {
    (DEEP_DEPTHS.len() * DEEP_OPENERS.len() * DEEP_TAILS.len() * 3) as u64
}
/// Very large single documents (counts past 2^20): one in the quick tier, all in the thorough one.
pub static HUGE_ON: std::sync::atomic::AtomicBool = std::sync::atomic::AtomicBool::new(false);
pub const HUGE_KINDS: [&str; 5] = ["aliases", "anchors", "documents", "keys", "nodes-across-documents"];
pub fn huge_count() -> u64 {
    if HUGE_ON.load(std::sync::atomic::Ordering::Relaxed) {
        (HUGE_KINDS.len() * 2) as u64
    } else {
        2
    }
}
fn huge_case(k: u64) -> Case {
    let quick = !HUGE_ON.load(std::sync::atomic::Ordering::Relaxed);
    let kind = if quick { ["aliases", "nodes-across-documents"][(k % 2) as usize] } else { HUGE_KINDS[(k / 2 % HUGE_KINDS.len() as u64) as usize] };
    let client = if quick || k % 2 == 0 { Client::LoadMulti } else { Client::LoadSingle };
    let n = (1usize << 20) + 1000;
    let mut text = String::with_capacity(n * 8);
    match kind {
        "aliases" => {
            text.push_str("- &a x\n");
            for _ in 0..n {
                text.push_str("- *a\n");
            }
        }
        "anchors" => {
            for i in 0..n / 4 {
                text.push_str(&format!("- &a{i} x\n"));
            }
            text.push_str("--- *a7\n");
        }
        "documents" => {
            for _ in 0..n / 4 {
                text.push_str("--- a\n");
            }
        }
        "nodes-across-documents" => {
            // each document stays below 2^20 nodes, the stream passes 2^21: whatever is counted
            // per document by one driver and per stream by another
            for _ in 0..3 {
                text.push_str("--- [");
                for _ in 0..750_000 {
                    text.push_str("a,");
                }
                text.push_str("z]\n");
            }
        }
        _ => {
            for i in 0..n / 4 {
                text.push_str(&format!("k{i}: v\n"));
            }
        }
    }
    Case { prop: "C17".into(), gen: "L-huge".into(), text, input: InputKind::Str, client, ..Case::default() }
}
/// An anchored document, then N filler documents, then a document aliasing the anchor: N around
/// the widths of small counters (a per-document stamp or generation that wraps).
pub const DISTANCES: [usize; 10] = [1, 254, 255, 256, 257, 32_767, 32_768, 32_769, 65_535, 65_536];
pub fn distance_count() -> u64 {
    (DISTANCES.len() * 3) as u64
}
fn distance_case(k: u64) -> Case {
    let client = [Client::PeekNext, Client::LoadMulti, Client::LoadSingle][(k % 3) as usize].clone();
    let n = DISTANCES[((k / 3) % DISTANCES.len() as u64) as usize];
    let mut text = String::with_capacity(6 * n + 32);
    text.push_str("--- &a x\n");
    for _ in 0..n.saturating_sub(1) {
        text.push_str("--- y\n");
    }
    text.push_str("--- *a\n");
    Case {
        prop: "C17".into(),
        gen: "L-distance".into(),
        text,
        input: InputKind::Str,
        peeks: if client == Client::PeekNext { vec![0, 1, 0] } else { vec![] },
        client,
        ..Case::default()
    }
}
/// Every regular input family (the instruction clock's) at a size where its repeated thing is
/// counted past 2^16 (thorough: past 2^18): the interfaces must still agree.
pub fn mega_sizes() -> &'static [usize] {
    if HUGE_ON.load(std::sync::atomic::Ordering::Relaxed) {
        &[700_000, 2_800_000]
    } else {
        &[700_000]
    }
}
pub fn mega_count() -> u64 {
    ((crate::scale::FAMILIES.len() + crate::gen::COUNT_KINDS.len()) * 3 * mega_sizes().len()) as u64
}
fn mega_case(k: u64) -> Case {
    let client = [Client::PeekNext, Client::LoadMulti, Client::LoadSingle][(k % 3) as usize].clone();
    let nf = (crate::scale::FAMILIES.len() + crate::gen::COUNT_KINDS.len()) as u64;
    let f = ((k / 3) % nf) as usize;
    let size = mega_sizes()[((k / 3 / nf) as usize) % mega_sizes().len()];
    let text = if f < crate::scale::FAMILIES.len() {
        crate::scale::render(crate::scale::FAMILIES[f], size)
    } else {
        // one kind of thing counted just past 2^16 (thorough: also past 2^18)
        crate::gen::count_doc(crate::gen::COUNT_KINDS[f - crate::scale::FAMILIES.len()], if size > 1_000_000 { 263_000 } else { 66_000 })
    };
    Case {
        prop: "C17".into(),
        gen: "L-family-mega".into(),
        text,
        input: InputKind::Str,
        peeks: if client == Client::PeekNext { vec![0, 1, 0, 2] } else { vec![] },
        client,
        ..Case::default()
    }
}
/// Special constructs at the bottom of a nest whose depth sits at and around every power of two
/// up to 2^14: whatever a driver does differently from some depth on meets every kind of node.
pub const EDGE_LEAVES: [&str; 10] = ["[? a : b, c]", "[a: b, c]", "{a: b}", "? a\n", "&x [y, *x]", "!t z", "\"q\"", "[[], {}]", "- [? [a]: b]", "*u"];
pub const EDGE_OPENERS: [&str; 2] = ["- ", "? "];
pub fn edge_depths() -> Vec<usize> {
    let mut v = vec![1, 2, 3];
    for p in 3..=14 {
        let b = 1usize << p;
        v.extend([b - 1, b, b + 1]);
    }
    v
}
pub fn edge_count() -> u64 {
    (edge_depths().len() * EDGE_LEAVES.len() * EDGE_OPENERS.len() * 2) as u64
}
fn edge_case(k: u64) -> Case {
    let client = if k % 2 == 0 { Client::LoadMulti } else { Client::PeekNext };
    let k = k / 2;
    let opener = EDGE_OPENERS[(k % 2) as usize];
    let k = k / 2;
    let leaf = EDGE_LEAVES[(k % EDGE_LEAVES.len() as u64) as usize];
    let ds = edge_depths();
    let depth = ds[((k / EDGE_LEAVES.len() as u64) as usize) % ds.len()];
    let mut text = String::with_capacity(depth * 2 + 32);
    for _ in 0..depth {
        text.push_str(opener);
    }
    text.push_str(leaf);
    if !text.ends_with('\n') {
        text.push('\n');
    }
    Case {
        prop: "C17".into(),
        gen: "L-edge-leaf".into(),
        text,
        input: InputKind::Str,
        peeks: if client == Client::PeekNext { vec![0, 1, 0, 0, 2] } else { vec![] },
        client,
        ..Case::default()
    }
}
pub fn probe_count() -> u64 {
    (PROBE_FAMILIES.len() * PROBE_SIZES.len() * PROBE_TAILS.len() * 3) as u64 + deep_count() + huge_count() + distance_count() + edge_count()
}
fn probe_case(k: u64) -> Case {
    if k < huge_count() {
        return huge_case(k);
    }
    let k = k - huge_count();
    if k < distance_count() {
        return distance_case(k);
    }
    let k = k - distance_count();
    if k < edge_count() {
        return edge_case(k);
    }
    let k = k - edge_count();

    if k < deep_count() {
        let client = [Client::PeekNext, Client::LoadMulti, Client::LoadSingle][(k % 3) as usize].clone();
        let j = k / 3;
        let opener = DEEP_OPENERS[(j % DEEP_OPENERS.len() as u64) as usize];
        let depth = DEEP_DEPTHS[((j / DEEP_OPENERS.len() as u64) % DEEP_DEPTHS.len() as u64) as usize];
        let tail = DEEP_TAILS[((j / (DEEP_OPENERS.len() * DEEP_DEPTHS.len()) as u64) % DEEP_TAILS.len() as u64) as usize];
        let per = opener.matches(['-', '?', ':']).count().max(1);
        let mut text = String::with_capacity(depth * 3);
        for _ in 0..depth / per {
            text.push_str(opener);
        }
        text.push_str(tail);
        return Case {
            prop: "C17".into(),
            gen: "L-deep".into(),
            text,
            input: InputKind::Str,
            peeks: if client == Client::PeekNext { vec![0, 0, 1, 0] } else { vec![] },
            client,
            ..Case::default()
        };
    }
    let k = k - deep_count();
    let client = [Client::PeekNext, Client::LoadMulti, Client::LoadSingle][(k % 3) as usize].clone();
    let k = k / 3;
    let tail = PROBE_TAILS[(k % PROBE_TAILS.len() as u64) as usize];
    let k = k / PROBE_TAILS.len() as u64;
    let size = PROBE_SIZES[(k % PROBE_SIZES.len() as u64) as usize];
    let fam = PROBE_FAMILIES[((k / PROBE_SIZES.len() as u64) % PROBE_FAMILIES.len() as u64) as usize];
    let mut text = crate::scale::render(fam, size);
    if !text.ends_with('\n') {
        text.push('\n');
    }
    text.push_str(tail);
    Case {
        prop: "C17".into(),
        gen: "L-probe".into(),
        text,
        input: if k % 2 == 0 { InputKind::Str } else { InputKind::Buffered },
        peeks: if client == Client::PeekNext { vec![0, 1, 0, 0, 2, 0, 0, 0, 1, 1, 0] } else { vec![] },
        extra_calls: (k % 7) as u8,
        client,
        ..Case::default()
    }
}

pub fn exhaustive_plan(ctx: &Ctx, thorough: bool) -> (u64, String) {
    let t = EX_TABLE.get_or_init(|| build_table(ctx, thorough));
    let total = t.last().map_or(0, |e| e.offset + e.count);
    let max_m = t.iter().map(|e| e.m).max().unwrap_or(0);
    (
        total + probe_count() + mega_count(),
        format!(
            "every peek/next history (0..2 peeks before each next, 7 after-StreamEnd tails) of {} streams with up to {} events; plus {} large probe streams ({:?} at {:?} bytes x 7 back-referring tail documents x 3 clients, and block nests of 255..150 000 levels x 4 openers x 3 clients, alone and followed by further documents; an anchor and its alias 1..65 536 documents apart x 3 clients; 10 special constructs at the bottom of nests of 2^k-1, 2^k, 2^k+1 levels (k = 3..14) x 2 openers x 2 clients; every one of the regular input families of the instruction clock at 700 kB (thorough: and 2.8 MB) x 3 clients)",
            t.len(),
            max_m,
            probe_count(),
            PROBE_FAMILIES,
            PROBE_SIZES
        ),
    )
}

fn draw_env(r: &mut SplitMix64) -> InputKind {
    match r.below(6) {
        0 => InputKind::Str,
        1 => InputKind::MeteredStr,
        2 | 3 => InputKind::Buffered,
        4 => InputKind::Ring(8, Policy::PerCall),
        _ => InputKind::Ring(Gen::draw_capacity(r), *r.pick(&[Policy::PushBack, Policy::Leave])),
    }
}

pub fn generate(run_seed: u64, ctx: &Ctx, sw: &Swarm, i: u64, exhaustive: u64) -> Case {
    // the megabyte cases are spread one per chunk over the start of the exhaustive region
    let (i, exhaustive) = if i < exhaustive {
        match crate::batch::spread(i, mega_count()) {
            Ok(k) => return mega_case(k),
            Err(j) => (j, exhaustive - mega_count()),
        }
    } else {
        (i, exhaustive)
    };
    if i < exhaustive && i >= exhaustive - probe_count() {
        return probe_case(i - (exhaustive - probe_count()));
    }
    if i < exhaustive {
        let t = EX_TABLE.get().expect("exhaustive table");
        let idx = match t.binary_search_by(|e| {
            if i < e.offset {
                std::cmp::Ordering::Greater
            } else if i >= e.offset + e.count {
                std::cmp::Ordering::Less
            } else {
                std::cmp::Ordering::Equal
            }
        }) {
            Ok(k) => k,
            Err(_) => 0,
        };
        let e = &t[idx];
        let mut h = i - e.offset;
        let slots = if e.complete { e.m } else { e.m + 1 };
        let mut peeks = Vec::with_capacity(slots);
        for _ in 0..slots {
            peeks.push((h % 3) as u8);
            h /= 3;
        }
        let tail = if e.complete { (h % 7) as u8 } else { 0 };
        return Case {
            prop: "C17".into(),
            gen: "H-exhaustive".into(),
            text: e.text.clone(),
            input: [InputKind::Str, InputKind::Buffered, InputKind::Ring(8, Policy::PushBack)][idx % 3],
            client: Client::PeekNext,
            peeks,
            extra_calls: tail,
            ..Case::default()
        };
    }
    let mut g = Gen::new(run_seed, &ctx.corpus, sw);
    let (gname, text) = g.text();
    let mut r = SplitMix64::new(run_seed ^ 0xC17C_17C1);
    let n = text.chars().count();
    let eof_at = if n > 0 && r.chance(1, 8) { Some(r.usize(n)) } else { None };
    let client = match r.below(4) {
        0 | 1 => Client::PeekNext,
        2 => Client::LoadMulti,
        _ => Client::LoadSingle,
    };
    let peeks = if client == Client::PeekNext {
        let k = 1 + r.usize(24);
        let heavy = *r.pick(&[1u64, 5, 9]);
        let mut v: Vec<u8> = (0..k).map(|_| if r.below(10) < heavy { 1 + r.below(2) as u8 } else { 0 }).collect();
        if r.chance(1, 6) {
            // finish by internal iteration at a drawn point of the history
            let at = r.usize(v.len());
            v[at] = 3 + r.below(2) as u8;
        }
        v
    } else {
        vec![]
    };
    Case {
        prop: "C17".into(),
        gen: gname.into(),
        text,
        eof_at,
        input: draw_env(&mut r),
        client,
        peeks,
        extra_calls: r.below(7) as u8,
        keep_tags: r.chance(1, 8),
        ..Case::default()
    }
}

// ------------------------------------------------------------------------------------------

/// The rest of an error-free stream consumed through one of the `Iterator` trait's provided
/// methods: `count()` / `for_each` by value deliver exactly the events `next` has not returned yet
/// (an event that `peek` cached counts once); `nth` positioned on the last event returns
/// `StreamEnd`, `nth` positioned at or beyond the end returns nothing, and in both cases the
/// stream has ended afterwards: `next` and `peek` return nothing.
fn finish_by_internal_iteration<I: Input>(p: Parser<'_, I>, expected: usize, op: usize, slot: usize) -> Option<(String, String)> {
    let mode = slot % 4;
    clock::tick_op(55, mode as u64);
    if mode >= 2 && expected >= 1 {
        let mut p = p;
        let over = (slot / 4) % 3;
        let (n, want_end) = if mode == 2 { (expected + over, false) } else { (expected - 1, true) };
        let got = p.nth(n);
        let ok = match (&got, want_end) {
            (None, false) => true,
            (Some(Ok((Event::StreamEnd, _))), true) => true,
            _ => false,
        };
        if !ok {
            let desc = match &got {
                None => "None".to_string(),
                Some(Ok((ev, span))) => describe_event(&own(ev.clone()), span),
                Some(Err(e)) => err_desc(e),
            };
            return Some((
                "MODEL(internal-iteration)".to_string(),
                format!(
                    "after op {op}: nth({n}) with {expected} events left returned {desc}, the model expects {}",
                    if want_end { "StreamEnd" } else { "None" }
                ),
            ));
        }
        for (q, c) in TAILS[(slot / 12) % 7].iter().enumerate() {
            clock::probe(Probe::CallsAfterEnd);
            let some = if *c == 0 { p.peek().is_some() } else { p.next().is_some() };
            if some {
                return Some((
                    "MODEL(after-end)".to_string(),
                    format!(
                        "call {q} ({}) after nth({n}) passed the end of the stream ({expected} events were left) gave Some, model expects None",
                        if *c == 0 { "peek" } else { "next" }
                    ),
                ));
            }
        }
        return None;
    }
    let (how, got) = if slot % 2 == 0 {
        ("count()", p.count())
    } else {
        let mut n = 0usize;
        p.for_each(|_| n += 1);
        ("for_each", n)
    };
    if got == expected {
        None
    } else {
        Some((
            "MODEL(internal-iteration)".to_string(),
            format!("after op {op}: finishing the stream with {how} delivered {got} items, the model expects the {expected} events that next had not returned yet"),
        ))
    }
}

fn same(ev: &Event<'_>, span: &Span, t: &(OwnedEvent, Span)) -> bool {
    ev == &t.0 && *span == t.1
}

fn err_desc(e: &ScanError) -> String {
    format!("Err({} @{}:{}:{})", e.info(), e.marker().index(), e.marker().line(), e.marker().col())
}

fn expect_desc(t: &Trace, cursor: usize) -> String {
    if cursor < t.evs.len() {
        describe_event(&t.evs[cursor].0, &t.evs[cursor].1)
    } else {
        t.end.describe()
    }
}

struct Pull<'c> {
    case: &'c Case,
    t: &'c Trace,
}

/// Returns `None` if the history conformed to the model, else `(class, detail)`.
impl ParserVisitor for Pull<'_> {
    type Out = Option<(String, String)>;
    fn construct_failed(self, end: End) -> Self::Out {
        Some((end.class(), format!("while the parser was being constructed: {}", end.describe())))
    }
    fn visit<'a, I: Input>(self, mut p: Parser<'a, I>) -> Self::Out {
        let t = self.t;
        let case = self.case;
        let m = t.evs.len();
        let g = guarded(move || {
            let mut p = p;
            let mut cursor = 0usize;
            let mut op = 0usize;
            let mut slot = 0usize;
            loop {
                let k = if case.peeks.is_empty() {
                    0
                } else if case.gen == "H-exhaustive" {
                    case.peeks.get(slot).copied().unwrap_or(0)
                } else {
                    case.peeks[slot % case.peeks.len()]
                };
                slot += 1;
                // 3 / 4: the client finishes the stream with one of the Iterator trait's provided
                // methods (internal iteration: count, for_each), after one peek (3) or none (4).
                // Only on streams without an error: the iterator is not fused after an error.
                let finish = k >= 3 && t.end == End::Complete;
                let k = match k {
                    3 => 1,
                    4 => 0,
                    k => k,
                };
                if finish && k == 0 {
                    return finish_by_internal_iteration(p, m - cursor, op, slot);
                }
                for j in 0..k {
                    if j > 0 {
                        clock::probe(Probe::PeekRepeated);
                    }
                    op += 1;
                    clock::tick_op(51, 0);
                    match p.peek() {
                        None => {
                            return Some((
                                "MODEL(peek)".to_string(),
                                format!("op {op}: peek returned None, model expects {}", expect_desc(t, cursor)),
                            ))
                        }
                        Some(Err(e)) => {
                            clock::probe(Probe::PeekAtError);
                            if cursor == m && t.end == End::Err(e.clone()) {
                                // peek consumes nothing, not even an error: a repeated peek
                                // and the following next must report the same error (the
                                // history ends when NEXT has returned it)
                                continue;
                            }
                            return Some((
                                "MODEL(peek)".to_string(),
                                format!("op {op}: peek returned {}, model expects {}", err_desc(&e), expect_desc(t, cursor)),
                            ));
                        }
                        Some(Ok((ev, span))) => {
                            if cursor >= m || !same(ev, span, &t.evs[cursor]) {
                                return Some((
                                    "MODEL(peek)".to_string(),
                                    format!(
                                        "op {op}: peek returned {}, model expects {}",
                                        describe_event(&own(ev.clone()), span),
                                        expect_desc(t, cursor)
                                    ),
                                ));
                            }
                        }
                    }
                }
                if finish {
                    return finish_by_internal_iteration(p, m - cursor, op, slot);
                }
                op += 1;
                clock::tick_op(52, 0);
                match p.next() {
                    None => {
                        return Some((
                            "MODEL(next)".to_string(),
                            format!("op {op}: next returned None, model expects {}", expect_desc(t, cursor)),
                        ))
                    }
                    Some(Err(e)) => {
                        if cursor == m && t.end == End::Err(e.clone()) {
                            return None;
                        }
                        return Some((
                            "MODEL(next)".to_string(),
                            format!("op {op}: next returned {}, model expects {}", err_desc(&e), expect_desc(t, cursor)),
                        ));
                    }
                    Some(Ok((ev, span))) => {
                        clock::fp_mix(ev_kind(&ev));
                        if cursor >= m || !same(&ev, &span, &t.evs[cursor]) {
                            return Some((
                                "MODEL(next)".to_string(),
                                format!(
                                    "op {op}: next returned {}, model expects {}",
                                    describe_event(&own(ev), &span),
                                    expect_desc(t, cursor)
                                ),
                            ));
                        }
                        cursor += 1;
                        if ev == Event::StreamEnd {
                            let tail = TAILS[case.extra_calls as usize % 7];
                            for (q, c) in tail.iter().enumerate() {
                                clock::probe(Probe::CallsAfterEnd);
                                clock::tick_op(54, u64::from(*c));
                                let some = if *c == 0 { p.peek().is_some() } else { p.next().is_some() };
                                if some {
                                    return Some((
                                        "MODEL(after-end)".to_string(),
                                        format!(
                                            "call {q} ({}) after StreamEnd was returned by next gave Some, model expects None",
                                            if *c == 0 { "peek" } else { "next" }
                                        ),
                                    ));
                                }
                            }
                            return None;
                        }
                    }
                }
                if op > 4 * (m + 8) * 3 {
                    return Some(("MODEL(next)".into(), "history did not end".into()));
                }
            }
        });
        match g {
            Guarded::Ok(v) => v,
            Guarded::Panic(msg) => Some((format!("PANIC({})", crate::trace::first_line(&msg)), format!("during peek/next history: {msg}"))),
            Guarded::Hang(tk) => Some(("HANG(step-budget)".into(), format!("during peek/next history after {tk} ticks"))),
        }
    }
}

struct Collect {
    evs: Vec<(OwnedEvent, Span)>,
    limit: usize,
}

impl<'a> SpannedEventReceiver<'a> for Collect {
    fn on_event(&mut self, ev: Event<'a>, span: Span) {
        clock::tick_op(50, ev_kind(&ev));
        self.evs.push((own(ev), span));
        if self.evs.len() > self.limit {
            clock::disarm();
            std::panic::panic_any(clock::BudgetExceeded { ticks: clock::ticks() });
        }
    }
}

fn compare_push(what: &str, t: &Trace, got: &[(OwnedEvent, Span)], res: &Result<(), ScanError>) -> Option<(String, String)> {
    let n = t.evs.len().min(got.len());
    for k in 0..n {
        if t.evs[k].0 != got[k].0 {
            return Some((
                "PUSH(event)".into(),
                format!("{what}: event {k}: iterator {:?}, push {:?}", t.evs[k].0, got[k].0),
            ));
        }
        if t.evs[k].1 != got[k].1 {
            return Some((
                "PUSH(span)".into(),
                format!(
                    "{what}: span {k}: iterator {}, push {}",
                    describe_event(&t.evs[k].0, &t.evs[k].1),
                    describe_event(&got[k].0, &got[k].1)
                ),
            ));
        }
    }
    let res_desc = match res {
        Ok(()) => "Ok".to_string(),
        Err(e) => err_desc(e),
    };
    if t.evs.len() != got.len() {
        return Some((
            "PUSH(length)".into(),
            format!(
                "{what}: iterator delivers {} events then {}, push delivers {} events then {res_desc}",
                t.evs.len(),
                t.end.describe(),
                got.len()
            ),
        ));
    }
    let ok = match (&t.end, res) {
        (End::Complete, Ok(())) => true,
        (End::Err(a), Err(b)) => a == b,
        _ => false,
    };
    if !ok {
        return Some((
            "PUSH(error)".into(),
            format!("{what}: iterator ends with {}, push returns {res_desc}", t.end.describe()),
        ));
    }
    None
}

struct PushMulti<'c> {
    t: &'c Trace,
    limit: usize,
}

impl ParserVisitor for PushMulti<'_> {
    type Out = Option<(String, String)>;
    fn construct_failed(self, end: End) -> Self::Out {
        Some((end.class(), format!("while the parser was being constructed: {}", end.describe())))
    }
    fn visit<'a, I: Input>(self, mut p: Parser<'a, I>) -> Self::Out {
        let mut recv = Collect { evs: Vec::new(), limit: self.limit };
        let g = guarded(|| p.load(&mut recv, true));
        match g {
            Guarded::Ok(res) => compare_push("load(multi=true)", self.t, &recv.evs, &res),
            Guarded::Panic(msg) => Some((format!("PANIC({})", crate::trace::first_line(&msg)), format!("during load(multi=true): {msg}"))),
            Guarded::Hang(tk) => Some(("HANG(step-budget)".into(), format!("during load(multi=true) after {tk} ticks"))),
        }
    }
}

struct PushSingle<'c> {
    t: &'c Trace,
    limit: usize,
}

impl ParserVisitor for PushSingle<'_> {
    type Out = Option<(String, String)>;
    fn construct_failed(self, end: End) -> Self::Out {
        Some((end.class(), format!("while the parser was being constructed: {}", end.describe())))
    }
    fn visit<'a, I: Input>(self, mut p: Parser<'a, I>) -> Self::Out {
        let mut recv = Collect { evs: Vec::new(), limit: self.limit };
        let limit = self.limit;
        let mut structure: Option<String> = None;
        let mut docs_total = 0usize;
        let g = guarded(|| {
            let mut calls = 0usize;
            loop {
                calls += 1;
                clock::tick_op(53, calls as u64);
                let before = recv.evs.len();
                let r = p.load(&mut recv, false);
                let slice = &recv.evs[before..];
                let docs = slice.iter().filter(|e| matches!(e.0, Event::DocumentStart(_))).count();
                let ends = slice.iter().filter(|e| e.0 == Event::DocumentEnd).count();
                let stream_end = slice.iter().any(|e| e.0 == Event::StreamEnd);
                docs_total += docs;
                if r.is_ok() && structure.is_none() {
                    if docs > 1 {
                        structure = Some(format!("call {calls} delivered {docs} documents"));
                    } else if docs == 1 && (ends != 1 || stream_end || slice.last().map(|e| &e.0) != Some(&Event::DocumentEnd)) {
                        structure = Some(format!(
                            "call {calls} returned Ok with a document that is not exactly DocumentStart..DocumentEnd (ends={ends}, stream_end={stream_end})"
                        ));
                    } else if docs == 0 && !stream_end {
                        structure = Some(format!("call {calls} returned Ok having delivered neither a document nor StreamEnd"));
                    }
                }
                match r {
                    Err(e) => return Err(e),
                    Ok(()) => {
                        if stream_end {
                            return Ok(());
                        }
                        if calls > limit + 8 {
                            clock::disarm();
                            std::panic::panic_any(clock::BudgetExceeded { ticks: clock::ticks() });
                        }
                    }
                }
            }
        });
        if docs_total > 1 {
            clock::probe(Probe::LoadSingleMultiDoc);
        }
        match g {
            Guarded::Ok(res) => {
                if let Some(s) = structure {
                    return Some(("PUSH(one-document-per-call)".into(), format!("load(multi=false): {s}")));
                }
                compare_push("repeated load(multi=false)", self.t, &recv.evs, &res)
            }
            Guarded::Panic(msg) => Some((format!("PANIC({})", crate::trace::first_line(&msg)), format!("during load(multi=false): {msg}"))),
            Guarded::Hang(tk) => Some(("HANG(step-budget)".into(), format!("during load(multi=false) after {tk} ticks"))),
        }
    }
}

thread_local! {
    static T_CACHE: std::cell::RefCell<Option<(String, Option<usize>, InputKind, bool, Trace)>> = const { std::cell::RefCell::new(None) };
}

fn has_cross_doc_alias(t: &Trace) -> bool {
    // an alias whose anchor id was issued before the current DocumentStart
    let mut max_id_before_doc = 0usize;
    let mut max_id = 0usize;
    for (ev, _) in &t.evs {
        match ev {
            Event::DocumentStart(_) => max_id_before_doc = max_id,
            Event::Scalar(_, _, a, _) | Event::SequenceStart(a, _) | Event::MappingStart(a, _) => max_id = max_id.max(*a),
            Event::Alias(a) => {
                if *a <= max_id_before_doc {
                    return true;
                }
            }
            _ => {}
        }
    }
    false
}

pub fn execute(case: &Case, record_seed: Option<u64>) -> Outcome {
    let prep = Prepared::new(&case.text, case.eof_at, case.keep_tags);
    let n = prep.n_chars;
    let tape = match record_seed {
        Some(s) => Tape::record(s),
        None => Tape::replay(case.tape.clone()),
    };
    crate::trace::nested_init();
    clock::begin(work_budget(n), tape);
    // Reference: plain iteration on a fresh parser over the same text in the same environment.
    // In the exhaustive phase consecutive runs share the text; cache T per thread. The cache is
    // keyed by everything T depends on, and environments with per-call decisions are not cached.
    let cacheable = !matches!(case.input, InputKind::Ring(_, Policy::PerCall));
    let cached = if cacheable {
        T_CACHE.with(|c| {
            c.borrow().as_ref().and_then(|(t, e, k, kt, tr)| {
                if *t == case.text && *e == case.eof_at && *k == case.input && *kt == case.keep_tags {
                    Some(tr.clone())
                } else {
                    None
                }
            })
        })
    } else {
        None
    };
    let t = match cached {
        Some(t) => t,
        None => {
            let t = with_parser(case.input, &prep, IterateAll { max_events: event_budget(n) });
            if cacheable {
                T_CACHE.with(|c| *c.borrow_mut() = Some((case.text.clone(), case.eof_at, case.input, case.keep_tags, t.clone())));
            }
            t
        }
    };
    let mut out = Outcome { n_chars: n as u64, events: t.evs.len() as u64, sub_runs: 1, ..Outcome::default() };
    match &t.end {
        End::Complete => clock::probe(Probe::CompleteRuns),
        End::Err(_) => clock::probe(Probe::ErrorRuns),
        _ => {}
    }
    let n_docs = t.evs.iter().filter(|e| matches!(e.0, Event::DocumentStart(_))).count();
    let unknown_anchor_later_doc =
        n_docs >= 2 && matches!(&t.end, End::Err(e) if e.info().contains("unknown anchor"));
    if has_cross_doc_alias(&t) || unknown_anchor_later_doc {
        clock::probe(Probe::AliasPrevDoc);
    }
    if t.end.is_bad() {
        out.summary = format!("reference {} (C01's subject)", t.end.describe());
    } else {
        clock::rearm(work_budget(n) * 4);
        // the reference may have come from the cache: the fingerprint covers the checked history only
        clock::fp_reset();
        clock::fp_mix(0xC17);
        clock::arm_nested();
        let v = match case.client {
            Client::LoadMulti => with_parser(case.input, &prep, PushMulti { t: &t, limit: event_budget(n) }),
            Client::LoadSingle => with_parser(case.input, &prep, PushSingle { t: &t, limit: event_budget(n) }),
            _ => with_parser(case.input, &prep, Pull { case, t: &t }),
        };
        clock::disarm_nested();
        if let Some((class, detail)) = v {
            out.violation = Some((class, format!("{detail} [input={} client={}]", case.input.describe(), case.client.describe())));
        } else if let Some(msg) = clock::take_nested_wrong() {
            out.violation = Some(("WRONG-RESULT(nested-parse)".into(), format!("{msg} [input={} client={}]", case.input.describe(), case.client.describe())));
        }
        out.summary = format!("T = {} events then {}; client {}", t.evs.len(), t.end.describe(), case.client.describe());
    }
    out.ticks = clock::ticks();
    let mut fp = crate::rng::Fp(clock::fingerprint());
    for p in &case.peeks {
        fp.mix(u64::from(*p));
    }
    fp.mix(u64::from(case.extra_calls));
    fp.mix_str(&case.text);
    out.fingerprint = fp.0;
    out.nontrivial = t.evs.len() >= 4;
    out.tape = clock::end().rec;
    out
}
