//! Minimal JSON value, writer and parser (no dependencies can be fetched offline, and none are
//! needed for the few flat records the simulator reads and writes).

use std::collections::BTreeMap;
use std::fmt::Write as _;

#[derive(Clone, Debug, PartialEq)]
pub enum J {
    Null,
    Bool(bool),
    Int(i64),
    Float(f64),
    Str(String),
    Arr(Vec<J>),
    Obj(Vec<(String, J)>),
}

impl J {
    pub fn obj() -> J {
        J::Obj(Vec::new())
    }
    pub fn set(&mut self, k: &str, v: J) -> &mut Self {
        if let J::Obj(m) = self {
            if let Some(e) = m.iter_mut().find(|e| e.0 == k) {
                e.1 = v;
            } else {
                m.push((k.to_string(), v));
            }
        }
        self
    }
    pub fn with(mut self, k: &str, v: J) -> J {
        self.set(k, v);
        self
    }
    pub fn get(&self, k: &str) -> Option<&J> {
        if let J::Obj(m) = self {
            m.iter().find(|e| e.0 == k).map(|e| &e.1)
        } else {
            None
        }
    }
    pub fn as_str(&self) -> Option<&str> {
        if let J::Str(s) = self {
            Some(s)
        } else {
            None
        }
    }
    pub fn as_i64(&self) -> Option<i64> {
        match self {
            J::Int(i) => Some(*i),
            J::Float(f) => Some(*f as i64),
            _ => None,
        }
    }
    pub fn as_u64(&self) -> Option<u64> {
        self.as_i64().map(|v| v as u64)
    }
    pub fn as_bool(&self) -> Option<bool> {
        if let J::Bool(b) = self {
            Some(*b)
        } else {
            None
        }
    }
    pub fn as_arr(&self) -> Option<&[J]> {
        if let J::Arr(a) = self {
            Some(a)
        } else {
            None
        }
    }
    pub fn str(s: &str) -> J {
        J::Str(s.to_string())
    }
    pub fn int<T: TryInto<i64>>(v: T) -> J {
        J::Int(v.try_into().unwrap_or(i64::MAX))
    }
    pub fn from_counts(m: &BTreeMap<String, u64>) -> J {
        J::Obj(m.iter().map(|(k, v)| (k.clone(), J::int(*v))).collect())
    }

    pub fn to_string(&self) -> String {
        let mut s = String::new();
        self.write(&mut s, 0, false);
        s
    }
    pub fn to_pretty(&self) -> String {
        let mut s = String::new();
        self.write(&mut s, 0, true);
        s.push('\n');
        s
    }
    fn write(&self, out: &mut String, ind: usize, pretty: bool) {
        match self {
            J::Null => out.push_str("null"),
            J::Bool(b) => out.push_str(if *b { "true" } else { "false" }),
            J::Int(i) => {
                let _ = write!(out, "{i}");
            }
            J::Float(f) => {
                if f.is_finite() {
                    let _ = write!(out, "{f:.3}");
                } else {
                    out.push_str("null");
                }
            }
            J::Str(s) => write_str(out, s),
            J::Arr(a) => {
                out.push('[');
                let simple = a.iter().all(|x| !matches!(x, J::Arr(_) | J::Obj(_)));
                for (i, x) in a.iter().enumerate() {
                    if i > 0 {
                        out.push(',');
                    }
                    if pretty && !simple {
                        nl(out, ind + 1);
                    } else if i > 0 {
                        out.push(' ');
                    }
                    x.write(out, ind + 1, pretty);
                }
                if pretty && !simple && !a.is_empty() {
                    nl(out, ind);
                }
                out.push(']');
            }
            J::Obj(m) => {
                out.push('{');
                for (i, (k, v)) in m.iter().enumerate() {
                    if i > 0 {
                        out.push(',');
                    }
                    if pretty {
                        nl(out, ind + 1);
                    } else if i > 0 {
                        out.push(' ');
                    }
                    write_str(out, k);
                    out.push_str(": ");
                    v.write(out, ind + 1, pretty);
                }
                if pretty && !m.is_empty() {
                    nl(out, ind);
                }
                out.push('}');
            }
        }
    }

    pub fn parse(s: &str) -> Result<J, String> {
        let b: Vec<char> = s.chars().collect();
        let mut p = P { b: &b, i: 0 };
        p.ws();
        let v = p.val()?;
        p.ws();
        if p.i != b.len() {
            return Err(format!("trailing data at {}", p.i));
        }
        Ok(v)
    }
}

fn nl(out: &mut String, ind: usize) {
    out.push('\n');
    for _ in 0..ind {
        out.push(' ');
    }
}

fn write_str(out: &mut String, s: &str) {
    out.push('"');
    for c in s.chars() {
        match c {
            '"' => out.push_str("\\\""),
            '\\' => out.push_str("\\\\"),
            '\n' => out.push_str("\\n"),
            '\r' => out.push_str("\\r"),
            '\t' => out.push_str("\\t"),
            c if (c as u32) < 0x20 || (c as u32) == 0x7f || (c as u32) > 0x7e => {
                let mut buf = [0u16; 2];
                for u in c.encode_utf16(&mut buf) {
                    let _ = write!(out, "\\u{:04x}", u);
                }
            }
            c => out.push(c),
        }
    }
    out.push('"');
}

struct P<'a> {
    b: &'a [char],
    i: usize,
}

impl P<'_> {
    fn ws(&mut self) {
        while self.i < self.b.len() && self.b[self.i].is_whitespace() {
            self.i += 1;
        }
    }
    fn val(&mut self) -> Result<J, String> {
        if self.i >= self.b.len() {
            return Err("eof".into());
        }
        match self.b[self.i] {
            '{' => {
                self.i += 1;
                let mut m = Vec::new();
                self.ws();
                if self.peek() == Some('}') {
                    self.i += 1;
                    return Ok(J::Obj(m));
                }
                loop {
                    self.ws();
                    let k = match self.val()? {
                        J::Str(s) => s,
                        _ => return Err("key".into()),
                    };
                    self.ws();
                    if self.peek() != Some(':') {
                        return Err(format!("expected : at {}", self.i));
                    }
                    self.i += 1;
                    self.ws();
                    let v = self.val()?;
                    m.push((k, v));
                    self.ws();
                    match self.peek() {
                        Some(',') => self.i += 1,
                        Some('}') => {
                            self.i += 1;
                            return Ok(J::Obj(m));
                        }
                        _ => return Err(format!("expected , or }} at {}", self.i)),
                    }
                }
            }
            '[' => {
                self.i += 1;
                let mut a = Vec::new();
                self.ws();
                if self.peek() == Some(']') {
                    self.i += 1;
                    return Ok(J::Arr(a));
                }
                loop {
                    self.ws();
                    a.push(self.val()?);
                    self.ws();
                    match self.peek() {
                        Some(',') => self.i += 1,
                        Some(']') => {
                            self.i += 1;
                            return Ok(J::Arr(a));
                        }
                        _ => return Err(format!("expected , or ] at {}", self.i)),
                    }
                }
            }
            '"' => {
                self.i += 1;
                let mut s = String::new();
                let mut pending_hi: Option<u16> = None;
                loop {
                    let c = *self.b.get(self.i).ok_or("eof in string")?;
                    self.i += 1;
                    match c {
                        '"' => break,
                        '\\' => {
                            let e = *self.b.get(self.i).ok_or("eof in escape")?;
                            self.i += 1;
                            match e {
                                'n' => s.push('\n'),
                                'r' => s.push('\r'),
                                't' => s.push('\t'),
                                'b' => s.push('\u{8}'),
                                'f' => s.push('\u{c}'),
                                '/' => s.push('/'),
                                '\\' => s.push('\\'),
                                '"' => s.push('"'),
                                'u' => {
                                    let h: String = self.b[self.i..self.i + 4].iter().collect();
                                    self.i += 4;
                                    let u = u16::from_str_radix(&h, 16).map_err(|e| e.to_string())?;
                                    if let Some(hi) = pending_hi.take() {
                                        let r: Vec<char> = char::decode_utf16([hi, u])
                                            .map(|r| r.unwrap_or('\u{fffd}'))
                                            .collect();
                                        s.extend(r);
                                    } else if (0xD800..0xDC00).contains(&u) {
                                        pending_hi = Some(u);
                                    } else {
                                        s.push(char::from_u32(u32::from(u)).unwrap_or('\u{fffd}'));
                                    }
                                }
                                _ => return Err("bad escape".into()),
                            }
                        }
                        c => s.push(c),
                    }
                }
                Ok(J::Str(s))
            }
            't' => self.lit("true", J::Bool(true)),
            'f' => self.lit("false", J::Bool(false)),
            'n' => self.lit("null", J::Null),
            _ => {
                let st = self.i;
                while self.i < self.b.len()
                    && (self.b[self.i].is_ascii_digit() || "+-.eE".contains(self.b[self.i]))
                {
                    self.i += 1;
                }
                let t: String = self.b[st..self.i].iter().collect();
                if let Ok(i) = t.parse::<i64>() {
                    Ok(J::Int(i))
                } else if let Ok(u) = t.parse::<u64>() {
                    Ok(J::Int(u as i64))
                } else {
                    t.parse::<f64>().map(J::Float).map_err(|e| format!("{e}: {t:?}"))
                }
            }
        }
    }
    fn peek(&self) -> Option<char> {
        self.b.get(self.i).copied()
    }
    fn lit(&mut self, w: &str, v: J) -> Result<J, String> {
        let n = w.chars().count();
        let t: String = self.b[self.i..(self.i + n).min(self.b.len())].iter().collect();
        if t == w {
            self.i += n;
            Ok(v)
        } else {
            Err(format!("bad literal at {}", self.i))
        }
    }
}
