//! The allocation clock: a counting wrapper around the system allocator. Off by default (one
//! relaxed load per call); the instruction-clock child switches it on around the library call
//! and reports the bytes requested and the peak of live bytes, both exact and repeatable.

use std::alloc::{GlobalAlloc, Layout, System};
use std::cell::Cell;
use std::sync::atomic::{AtomicBool, AtomicU64, Ordering::Relaxed};

pub struct Counting;

pub static ON: AtomicBool = AtomicBool::new(false);
static REQUESTED: AtomicU64 = AtomicU64::new(0);
static LIVE: AtomicU64 = AtomicU64::new(0);
static PEAK: AtomicU64 = AtomicU64::new(0);

// Per-thread counters for the simulated runs (one run = one worker thread at a time). The cells
// are const-initialised and have no destructor, so touching them from the allocator is safe.
thread_local! {
    static TL_ON: Cell<bool> = const { Cell::new(false) };
    static TL_REQUESTED: Cell<u64> = const { Cell::new(0) };
    static TL_LIVE: Cell<u64> = const { Cell::new(0) };
    static TL_PEAK: Cell<u64> = const { Cell::new(0) };
}

#[inline]
fn tl_on() -> bool {
    TL_ON.try_with(Cell::get).unwrap_or(false)
}
fn tl_grow(n: u64) {
    let _ = TL_REQUESTED.try_with(|c| c.set(c.get() + n));
    let live = TL_LIVE.try_with(|c| {
        c.set(c.get() + n);
        c.get()
    });
    if let Ok(live) = live {
        let _ = TL_PEAK.try_with(|c| c.set(c.get().max(live)));
    }
}
fn tl_shrink(n: u64) {
    let _ = TL_LIVE.try_with(|c| c.set(c.get().saturating_sub(n)));
}

/// Start counting the allocations of the calling thread.
pub fn tl_start() {
    TL_REQUESTED.with(|c| c.set(0));
    TL_LIVE.with(|c| c.set(0));
    TL_PEAK.with(|c| c.set(0));
    TL_ON.with(|c| c.set(true));
}
/// Stop; returns (bytes requested, peak of live bytes) of the calling thread since `tl_start`.
pub fn tl_stop() -> (u64, u64) {
    TL_ON.with(|c| c.set(false));
    (TL_REQUESTED.with(Cell::get), TL_PEAK.with(Cell::get))
}

fn grow(n: u64) {
    REQUESTED.fetch_add(n, Relaxed);
    let live = LIVE.fetch_add(n, Relaxed) + n;
    PEAK.fetch_max(live, Relaxed);
}
fn shrink(n: u64) {
    // blocks allocated before counting was switched on may be released while it is on
    let _ = LIVE.fetch_update(Relaxed, Relaxed, |v| Some(v.saturating_sub(n)));
}

unsafe impl GlobalAlloc for Counting {
    unsafe fn alloc(&self, l: Layout) -> *mut u8 {
        if ON.load(Relaxed) {
            grow(l.size() as u64);
        }
        if tl_on() {
            tl_grow(l.size() as u64);
        }
        System.alloc(l)
    }
    unsafe fn alloc_zeroed(&self, l: Layout) -> *mut u8 {
        if ON.load(Relaxed) {
            grow(l.size() as u64);
        }
        if tl_on() {
            tl_grow(l.size() as u64);
        }
        System.alloc_zeroed(l)
    }
    unsafe fn dealloc(&self, p: *mut u8, l: Layout) {
        if ON.load(Relaxed) {
            shrink(l.size() as u64);
        }
        if tl_on() {
            tl_shrink(l.size() as u64);
        }
        System.dealloc(p, l)
    }
    unsafe fn realloc(&self, p: *mut u8, l: Layout, new_size: usize) -> *mut u8 {
        if ON.load(Relaxed) {
            shrink(l.size() as u64);
            grow(new_size as u64);
        }
        if tl_on() {
            tl_shrink(l.size() as u64);
            tl_grow(new_size as u64);
        }
        System.realloc(p, l, new_size)
    }
}

pub fn start() {
    REQUESTED.store(0, Relaxed);
    LIVE.store(0, Relaxed);
    PEAK.store(0, Relaxed);
    ON.store(true, Relaxed);
}

/// Stop counting; returns (bytes requested, peak of live bytes).
pub fn stop() -> (u64, u64) {
    ON.store(false, Relaxed);
    (REQUESTED.load(Relaxed), PEAK.load(Relaxed))
}
