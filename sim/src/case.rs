//! A `Case` is one fully explicit simulated execution: the text or bytes offered, the
//! environment on the far side of every seam, the client's call schedule and the decision tape
//! for per-call choices. Executing a case is a pure function of the case and the code under
//! test; a replay file is a case plus the violation it produced.

use crate::inputs::InputKind;
use crate::json::J;

#[derive(Clone, Debug, PartialEq, Eq)]
pub enum Client {
    /// `for ev in parser` to exhaustion.
    Iterate,
    /// `peek` 0..2 times before each `next`, pattern in `Case::peeks` (cycled).
    PeekNext,
    /// `parser.load(&mut recv, true)`.
    LoadMulti,
    /// `parser.load(&mut recv, false)` repeated until `StreamEnd` or an error.
    LoadSingle,
    /// A document loader: node type 0..4 (Yaml, YamlOwned, MarkedYaml, MarkedYamlOwned),
    /// via 0 = load_from_parser on the simulated input, 1 = load_from_iter on a SimSource,
    /// 2 = load_from_str.
    Loader(u8, u8),
}

impl Client {
    pub fn describe(&self) -> String {
        match self {
            Client::Iterate => "iterate".into(),
            Client::PeekNext => "peeknext".into(),
            Client::LoadMulti => "load-multi".into(),
            Client::LoadSingle => "load-single".into(),
            Client::Loader(n, v) => format!("loader:{}:{}", NODE_TYPES[*n as usize % 4], VIAS[*v as usize % 4]),
        }
    }
    pub fn parse(s: &str) -> Option<Client> {
        let p: Vec<&str> = s.split(':').collect();
        Some(match p[0] {
            "iterate" => Client::Iterate,
            "peeknext" => Client::PeekNext,
            "load-multi" => Client::LoadMulti,
            "load-single" => Client::LoadSingle,
            "loader" => Client::Loader(
                NODE_TYPES.iter().position(|x| Some(x) == p.get(1))? as u8,
                VIAS.iter().position(|x| Some(x) == p.get(2))? as u8,
            ),
            _ => return None,
        })
    }
}

pub const NODE_TYPES: [&str; 4] = ["Yaml", "YamlOwned", "MarkedYaml", "MarkedYamlOwned"];
pub const VIAS: [&str; 4] = ["parser", "iter", "str", "lazy"];

#[derive(Clone, Debug)]
pub struct Case {
    pub prop: String,
    pub gen: String,
    pub text: String,
    pub eof_at: Option<usize>,
    pub input: InputKind,
    pub extra_inputs: Vec<InputKind>,
    pub client: Client,
    pub peeks: Vec<u8>,
    pub extra_calls: u8,
    pub keep_tags: bool,
    pub tape: Vec<u32>,
    // C18 only
    pub bytes: Vec<u8>,
    pub enc: String,
    pub bom: bool,
    pub trap: String,
    pub fault_free: bool,
    pub faults: Vec<String>,
    // C11 only
    pub shape: String,
    pub depth: usize,
    pub api: String,
}

impl Default for Case {
    fn default() -> Self {
        Case {
            prop: String::new(),
            gen: String::new(),
            text: String::new(),
            eof_at: None,
            input: InputKind::Str,
            extra_inputs: Vec::new(),
            client: Client::Iterate,
            peeks: Vec::new(),
            extra_calls: 0,
            keep_tags: false,
            tape: Vec::new(),
            bytes: Vec::new(),
            enc: String::new(),
            bom: false,
            trap: String::new(),
            fault_free: true,
            faults: Vec::new(),
            shape: String::new(),
            depth: 0,
            api: String::new(),
        }
    }
}

fn hex(b: &[u8]) -> String {
    let mut s = String::with_capacity(b.len() * 2);
    for x in b {
        s.push_str(&format!("{x:02x}"));
    }
    s
}

fn unhex(s: &str) -> Vec<u8> {
    let c: Vec<u8> = s.bytes().collect();
    c.chunks(2)
        .filter(|p| p.len() == 2)
        .filter_map(|p| u8::from_str_radix(std::str::from_utf8(p).ok()?, 16).ok())
        .collect()
}

impl Case {
    pub fn to_json(&self) -> J {
        let mut j = J::obj();
        j.set("property", J::str(&self.prop));
        j.set("generator", J::str(&self.gen));
        match self.prop.as_str() {
            "C18" => {
                j.set("bytes_hex", J::str(&hex(&self.bytes)));
                j.set("bytes_len", J::int(self.bytes.len()));
                j.set("encoding", J::str(&self.enc));
                j.set("bom", J::Bool(self.bom));
                j.set("trap", J::str(&self.trap));
                j.set("fault_free", J::Bool(self.fault_free));
                j.set("faults", J::Arr(self.faults.iter().map(|s| J::str(s)).collect()));
                if self.fault_free {
                    j.set("text", J::str(&self.text));
                }
            }
            "C11" => {
                j.set("shape", J::str(&self.shape));
                j.set("depth", J::int(self.depth));
                j.set("api", J::str(&self.api));
            }
            _ => {
                j.set("text", J::str(&self.text));
                j.set("eof_at", self.eof_at.map_or(J::Null, J::int));
                j.set("input", J::str(&self.input.describe()));
                if !self.extra_inputs.is_empty() {
                    j.set(
                        "extra_inputs",
                        J::Arr(self.extra_inputs.iter().map(|k| J::str(&k.describe())).collect()),
                    );
                }
                j.set("client", J::str(&self.client.describe()));
                j.set("peeks", J::Arr(self.peeks.iter().map(|p| J::int(*p)).collect()));
                j.set("extra_calls", J::int(self.extra_calls));
                j.set("keep_tags", J::Bool(self.keep_tags));
            }
        }
        j.set("tape", J::Arr(self.tape.iter().map(|p| J::int(*p)).collect()));
        j
    }

    pub fn from_json(j: &J) -> Result<Case, String> {
        let mut c = Case {
            prop: j.get("property").and_then(J::as_str).ok_or("property")?.to_string(),
            ..Case::default()
        };
        c.gen = j.get("generator").and_then(J::as_str).unwrap_or("").to_string();
        c.text = j.get("text").and_then(J::as_str).unwrap_or("").to_string();
        c.eof_at = j.get("eof_at").and_then(J::as_i64).map(|v| v as usize);
        if let Some(s) = j.get("input").and_then(J::as_str) {
            c.input = InputKind::parse(s).ok_or("input")?;
        }
        if let Some(a) = j.get("extra_inputs").and_then(J::as_arr) {
            for x in a {
                c.extra_inputs.push(InputKind::parse(x.as_str().ok_or("extra_inputs")?).ok_or("extra_inputs")?);
            }
        }
        if let Some(s) = j.get("client").and_then(J::as_str) {
            c.client = Client::parse(s).ok_or("client")?;
        }
        if let Some(a) = j.get("peeks").and_then(J::as_arr) {
            c.peeks = a.iter().filter_map(J::as_i64).map(|v| v as u8).collect();
        }
        c.extra_calls = j.get("extra_calls").and_then(J::as_i64).unwrap_or(0) as u8;
        c.keep_tags = j.get("keep_tags").and_then(J::as_bool).unwrap_or(false);
        if let Some(a) = j.get("tape").and_then(J::as_arr) {
            c.tape = a.iter().filter_map(J::as_i64).map(|v| v as u32).collect();
        }
        if let Some(s) = j.get("bytes_hex").and_then(J::as_str) {
            c.bytes = unhex(s);
        }
        c.enc = j.get("encoding").and_then(J::as_str).unwrap_or("").to_string();
        c.bom = j.get("bom").and_then(J::as_bool).unwrap_or(false);
        c.trap = j.get("trap").and_then(J::as_str).unwrap_or("").to_string();
        c.fault_free = j.get("fault_free").and_then(J::as_bool).unwrap_or(true);
        if let Some(a) = j.get("faults").and_then(J::as_arr) {
            c.faults = a.iter().filter_map(J::as_str).map(str::to_string).collect();
        }
        c.shape = j.get("shape").and_then(J::as_str).unwrap_or("").to_string();
        c.depth = j.get("depth").and_then(J::as_i64).unwrap_or(0) as usize;
        c.api = j.get("api").and_then(J::as_str).unwrap_or("").to_string();
        Ok(c)
    }
}

/// What a run reports back to the batch driver.
#[derive(Clone, Debug, Default)]
pub struct Outcome {
    /// `(class, detail)` if the property was violated on this case.
    pub violation: Option<(String, String)>,
    pub fingerprint: u64,
    pub nontrivial: bool,
    pub ticks: u64,
    /// library-internal loop iterations (guarded work hooks)
    pub work: u64,
    /// peak of live bytes allocated by the run's thread during the run (C01)
    pub mem_peak: u64,
    /// the memory budget the peak was checked against (0: not checked)
    pub mem_budget: u64,
    pub events: u64,
    pub n_chars: u64,
    /// comparisons / sub-executions performed inside this run
    pub sub_runs: u64,
    /// The tape as recorded while the run executed.
    pub tape: Vec<u32>,
    pub summary: String,
}
