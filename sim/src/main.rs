//! simcheck — deterministic simulation with fault injection for saphyr.
//!
//! Usage:
//!   simcheck run <C01|C10|C11|C17|C18> <quick|thorough>
//!   simcheck --replay <file>
//!   simcheck gen <prop> <tier> <run-index>
//!   simcheck fingerprints <prop> <tier> <start> <count>
//!   simcheck c11-child <shape> <depth> <api>
//!
//! Environment: VERIF_SEED (default 20261003), VERIF_JOBS (default: all cores), VERIF_RUNS
//! (override the number of seeded runs), VERIF_DIR (default /verif), SIM_PROFILE (label only).
//! Exit status: 0 property held on everything explored, 1 violation (a line
//! `VIOLATION property=<id> replay=<path>` is printed), 2 harness error (never a verdict).

mod alloc;
mod batch;
mod c01;
mod c10;
mod c11;
mod c17;
mod c18;
mod case;
mod clock;
mod gen;
mod inputs;
mod json;
mod minimise;
mod rng;
mod scale;
mod supervise;
mod trace;

#[global_allocator]
static GLOBAL: alloc::Counting = alloc::Counting;

use batch::Config;
use json::J;

fn env_u64(k: &str) -> Option<u64> {
    std::env::var(k).ok().and_then(|v| v.trim().parse().ok())
}

fn config(prop: &str, tier: &str) -> Config {
    let jobs = env_u64("VERIF_JOBS")
        .map(|v| v as usize)
        .unwrap_or_else(|| std::thread::available_parallelism().map_or(4, std::num::NonZero::get))
        .clamp(1, 64);
    Config {
        prop: prop.to_string(),
        tier: tier.to_string(),
        seed: env_u64("VERIF_SEED").unwrap_or(20_261_003),
        jobs,
        profile: std::env::var("SIM_PROFILE").unwrap_or_else(|_| "strict".into()),
        runs: env_u64("VERIF_RUNS"),
        verif_dir: std::env::var("VERIF_DIR").unwrap_or_else(|_| "/verif".into()),
        write_evidence: std::env::var_os("SIM_NO_EVIDENCE").is_none(),
    }
}

fn usage() -> i32 {
    eprintln!("usage: simcheck run <prop> <quick|thorough> | --replay <file> | gen <prop> <tier> <i> | fingerprints <prop> <tier> <start> <count>");
    2
}

fn main() {
    trace::install_panic_hook();
    let args: Vec<String> = std::env::args().skip(1).collect();
    let code = match args.first().map(String::as_str) {
        Some("run") if args.len() >= 3 => {
            let tier = if args[2] == "thorough" { "thorough" } else { "quick" };
            match args[1].as_str() {
                "C11" => c11::run(&config("C11", tier)),
                "C01" | "C10" | "C17" | "C18" => {
                    if std::env::var_os("SIM_CHILD").is_some() || std::env::var_os("SIM_NO_SUPERVISOR").is_some() {
                        batch::run_batch(config(&args[1], tier))
                    } else {
                        supervise::run(&config(&args[1], tier))
                    }
                }
                p => {
                    eprintln!("property {p} is not claimed by this framework (see MANIFEST.json not_applicable)");
                    2
                }
            }
        }
        Some("--replay") if args.len() >= 2 => replay(&args[1], true),
        Some("replay-child") if args.len() >= 2 => replay(&args[1], false),
        Some("run-child") if args.len() >= 3 => batch::run_batch(config(&args[1], &args[2])),
        Some("careful") if args.len() >= 4 => supervise::careful(&config(&args[1], &args[2]), args[3].parse().unwrap_or(0)),
        Some("gen") if args.len() >= 4 => {
            let cfg = config(&args[1], &args[2]);
            let i: u64 = args[3].parse().unwrap_or(0);
            match gen_case(&cfg, i) {
                Ok(c) => {
                    println!("{}", c.to_json().to_pretty());
                    0
                }
                Err(e) => {
                    eprintln!("harness error: {e}");
                    2
                }
            }
        }
        Some("fingerprints") if args.len() >= 5 => {
            let cfg = config(&args[1], &args[2]);
            fingerprints(&cfg, args[3].parse().unwrap_or(0), args[4].parse().unwrap_or(0))
        }
        Some("c11-thresholds") => c11::thresholds(),
        Some("c01-scale-child") if args.len() >= 4 => scale::child(&args[1], args[2].parse().unwrap_or(0), &args[3]),
        Some("c01-scale") => {
            let tier = args.get(1).map_or("quick", String::as_str);
            scale::run(&config("C01", tier)).0
        }
        Some("c11-child") if args.len() >= 4 => c11::child(&args[1], args[2].parse().unwrap_or(0), &args[3]),
        _ => usage(),
    };
    std::process::exit(code);
}

pub fn make_ctx(cfg: &Config) -> Result<batch::Ctx, String> {
    let corpus = gen::Corpus::load(&format!("{}/corpus/suite.jsonl", cfg.verif_dir))?;
    Ok(batch::Ctx { cfg: cfg.clone(), corpus })
}

fn gen_case(cfg: &Config, i: u64) -> Result<case::Case, String> {
    let ctx = make_ctx(cfg)?;
    let (_, ex, _) = batch::plan(&cfg.prop, &cfg.tier, &ctx);
    let sw = batch::swarm_for(&ctx, i);
    Ok(batch::generate(&ctx, i, &sw, ex))
}

/// Print `run fingerprint verdict` for a range of runs, in run order, using VERIF_JOBS threads.
/// Used by the determinism self-test: the output must be byte-identical across processes and
/// worker counts.
fn fingerprints(cfg: &Config, start: u64, count: u64) -> i32 {
    let ctx = match make_ctx(cfg) {
        Ok(c) => std::sync::Arc::new(c),
        Err(e) => {
            eprintln!("harness error: {e}");
            return 2;
        }
    };
    let (_, ex, _) = batch::plan(&cfg.prop, &cfg.tier, &ctx);
    let next = std::sync::Arc::new(std::sync::atomic::AtomicU64::new(0));
    let mut hs = Vec::new();
    for _ in 0..cfg.jobs {
        let ctx = ctx.clone();
        let next = next.clone();
        hs.push(
            std::thread::Builder::new()
                .stack_size(256 << 20)
                .spawn(move || {
                    let mut v = Vec::new();
                    loop {
                        let k = next.fetch_add(64, std::sync::atomic::Ordering::SeqCst);
                        if k >= count {
                            break;
                        }
                        for i in start + k..start + (k + 64).min(count) {
                            let sw = batch::swarm_for(&ctx, i);
                            let case = batch::generate(&ctx, i, &sw, ex);
                            let seed = rng::mix(ctx.cfg.seed, batch::prop_num(&ctx.cfg.prop) ^ 0x7A9E, i);
                            let o = batch::execute(&case, Some(seed));
                            let mut fp = rng::Fp(o.fingerprint);
                            fp.mix(o.ticks);
                            fp.mix(o.events);
                            fp.mix_str(&o.summary);
                            for t in &o.tape {
                                fp.mix(u64::from(*t));
                            }
                            v.push((i, fp.0, o.violation.map(|x| x.0).unwrap_or_else(|| "-".into())));
                        }
                    }
                    v
                })
                .unwrap(),
        );
    }
    let mut all = Vec::new();
    for h in hs {
        all.extend(h.join().unwrap());
    }
    all.sort();
    let mut out = String::new();
    for (i, f, v) in all {
        out.push_str(&format!("{i} {f:016x} {v}\n"));
    }
    print!("{out}");
    0
}

fn replay(path: &str, supervised: bool) -> i32 {
    let s = match std::fs::read_to_string(path) {
        Ok(s) => s,
        Err(e) => {
            eprintln!("harness error: {path}: {e}");
            return 2;
        }
    };
    let j = match J::parse(&s) {
        Ok(j) => j,
        Err(e) => {
            eprintln!("harness error: {path}: {e}");
            return 2;
        }
    };
    let Some(cj) = j.get("case") else {
        eprintln!("harness error: {path}: no case");
        return 2;
    };
    let case = match case::Case::from_json(cj) {
        Ok(c) => c,
        Err(e) => {
            eprintln!("harness error: {path}: bad case: {e}");
            return 2;
        }
    };
    if case.prop == "C11" {
        return c11::replay(&case, path);
    }
    if case.prop == "C01" && case.gen == "scale" {
        return scale::replay(&case, path);
    }
    if supervised {
        return supervise::replay(path, &case.prop);
    }
    // Run on a big stack, like the batch workers do.
    let c2 = case.clone();
    let o = std::thread::Builder::new()
        .stack_size(256 << 20)
        .spawn(move || batch::execute(&c2, None))
        .unwrap()
        .join();
    match o {
        Ok(o) => match o.violation {
            Some((class, detail)) => {
                println!("violation class={class} detail={detail}");
                println!("VIOLATION property={} replay={path}", case.prop);
                1
            }
            None => {
                println!("replay of {path}: no violation ({}; {} seam ticks, {} work ticks, {} bytes peak, {} chars)", o.summary, o.ticks, o.work, o.mem_peak, o.n_chars);
                0
            }
        },
        Err(_) => {
            eprintln!("harness error: replay thread panicked outside the simulated run");
            2
        }
    }
}
