//! C01 — parsing always terminates: no panic, abort or hang, work linear in the input.
//!
//! One run: (text, environment behind the `Input` seam incl. early source EOF, client schedule).
//! Oracle, checked while the run proceeds: no unwind out of the library; step clock within
//! `200*(n+16)` ticks and `8*(n+4)` events; the run ends in StreamEnd or exactly one error and
//! the iterator is fused afterwards.

use crate::c10::{event_budget, work_budget};
use crate::case::{Case, Client, Outcome};
use crate::clock::{self, Probe};
use crate::gen::{self, Corpus, Gen, Swarm};
use crate::inputs::{InputKind, Policy, SimSource};
use crate::rng::{SplitMix64, Tape};
use crate::trace::{ev_kind, guarded, with_parser, End, Guarded, IterateAll, ParserVisitor, Prepared};
use saphyr::{LoadableYamlNode, MarkedYaml, MarkedYamlOwned, Yaml, YamlOwned};
use saphyr_parser::{Event, Input, Parser, ScanError, Span, SpannedEventReceiver};

/// The environments x clients each exhaustively enumerated short string is run under.
pub const W5_ENVS: [(InputKind, u8); 6] = [
    (InputKind::Str, 0),
    (InputKind::Buffered, 0),
    (InputKind::Ring(8, Policy::PushBack), 1),
    (InputKind::Slice(8), 2),
    (InputKind::Ring(16, Policy::Leave), 3),
    (InputKind::Str, 4),
];

fn client_for(code: u8) -> Client {
    match code {
        0 => Client::Iterate,
        1 => Client::PeekNext,
        2 => Client::LoadMulti,
        3 => Client::LoadSingle,
        _ => Client::Loader(0, 0),
    }
}

pub fn draw_input(r: &mut SplitMix64) -> InputKind {
    match r.below(12) {
        0 => InputKind::Str,
        1 => InputKind::MeteredStr,
        2 | 3 => InputKind::Buffered,
        4 => InputKind::BufferedBare,
        5..=8 => {
            let cap = if r.chance(1, 3) { *r.pick(&[8usize, 16, 64, 128]) } else { Gen::draw_capacity(r) };
            let pol = *r.pick(&[Policy::PushBack, Policy::Leave, Policy::PerCall]);
            InputKind::Ring(cap, pol)
        }
        _ => InputKind::Slice(Gen::draw_capacity(r)),
    }
}

/// Every regular input family at 700 kB and every count document (one kind of thing counted to
/// 66 000), through plain iteration and through one loader: spread one per chunk.
pub fn mega_count() -> u64 {
    ((crate::scale::FAMILIES.len() + gen::COUNT_KINDS.len()) * 2) as u64
}
fn mega_case(k: u64) -> Case {
    let f = (k / 2) as usize;
    let text = if f < crate::scale::FAMILIES.len() {
        crate::scale::render(crate::scale::FAMILIES[f], 700_000)
    } else {
        gen::count_doc(gen::COUNT_KINDS[f - crate::scale::FAMILIES.len()], 66_000)
    };
    let (input, client) = if k % 2 == 0 { (InputKind::Str, Client::Iterate) } else { (InputKind::Str, Client::Loader((f % 4) as u8, 2)) };
    Case { prop: "C01".into(), gen: "M-family-mega".into(), text, input, client, ..Case::default() }
}

/// Streams of billions of characters in run-length form (positions past 2^31 and 2^32 in the
/// stream and within one line): a comment or a run of blanks is jumped over in one step.
pub fn giant_streams() -> Vec<Vec<(char, u64)>> {
    const G: u64 = 1 << 30;
    let text = |s: &str| -> Vec<(char, u64)> { s.chars().map(|c| (c, 1)).collect() };
    let mut v = Vec::new();
    for n in [2 * G + 5, 3 * G, 4 * G + 5, 5 * G] {
        // one comment line of n characters, then a document
        let mut a = text("# ");
        a.push(('x', n));
        a.extend(text("\na: b\n"));
        v.push(a);
        // two comment lines (the stream index passes the limit, the column does not)
        let mut b = text("# ");
        b.push(('x', n / 2));
        b.extend(text("\n# "));
        b.push(('y', n / 2 + 9));
        b.extend(text("\n- c\n"));
        v.push(b);
        // a trailing comment after a plain scalar (blank runs are skipped one character at a
        // time by every input, so they cannot be made this long)
        let mut c = text("a: b # ");
        c.push(('z', n));
        c.extend(text("\nd: e\n"));
        v.push(c);
        // a comment after a flow indicator and a block scalar header
        let mut d = text("- [a, # ");
        d.push(('x', n));
        d.extend(text("\n  b]\n- | # "));
        d.push(('x', n));
        d.extend(text("\n  text\n"));
        v.push(d);
    }
    v
}
pub fn giant_count() -> u64 {
    giant_streams().len() as u64 * 2
}

pub fn generate(run_seed: u64, corpus: &Corpus, sw: &Swarm, i: u64, exhaustive: u64) -> Case {
    if i < exhaustive {
        let gn = giant_count();
        if i >= exhaustive - gn {
            let j = (i - (exhaustive - gn)) as usize;
            let client = if j % 2 == 0 { Client::Iterate } else { Client::LoadMulti };
            return Case {
                prop: "C01".into(),
                gen: "G-giant-rle".into(),
                text: crate::inputs::SimRle::notation(&giant_streams()[j / 2]),
                input: InputKind::Rle,
                client,
                ..Case::default()
            };
        }
        let exhaustive = exhaustive - gn;
        let i = match crate::batch::spread(i, mega_count()) {
            Ok(k) => return mega_case(k),
            Err(j) => j,
        };
        let exhaustive = exhaustive - mega_count();
        let n_env = W5_ENVS.len() as u64;
        let (kind, cl) = W5_ENVS[(i % n_env) as usize];
        let client = client_for(cl);
        // last block: ordered pairs of edge-value escapes in a double-quoted scalar, iterate + two loaders
        // very last block: special scalars as keys and values, iterate and the four loaders
        let skn = gen::special_key_count() * 5;
        if i >= exhaustive - skn {
            let j = i - (exhaustive - skn);
            let client = match j % 5 {
                0 => Client::Iterate,
                n => Client::Loader((n - 1) as u8, if (j / 5) % 3 == 0 { 3 } else { 2 }),
            };
            return Case { prop: "C01".into(), gen: "K-special-keys".into(), text: gen::nth_special_key(j / 5), input: InputKind::Str, client, ..Case::default() };
        }
        let exhaustive = exhaustive - skn;
        // before it: what follows a dedent
        let ddn = gen::dedent_count() * 2;
        if i >= exhaustive - ddn {
            let j = i - (exhaustive - ddn);
            let (input, client) = if j % 2 == 0 { (InputKind::Str, Client::Iterate) } else { (InputKind::Buffered, Client::Loader(((j / 2) % 4) as u8, 0)) };
            return Case { prop: "C01".into(), gen: "D-dedent".into(), text: gen::nth_dedent(j / 2), input, client, ..Case::default() };
        }
        let exhaustive = exhaustive - ddn;
        // before it: every split of a core-schema tag between %TAG prefix and suffix
        let tsn = gen::tag_split_count() * 5;
        if i >= exhaustive - tsn {
            let j = i - (exhaustive - tsn);
            let client = match j % 5 {
                0 => Client::Iterate,
                n => Client::Loader((n - 1) as u8, if (j / 5) % 2 == 0 { 0 } else { 3 }),
            };
            return Case { prop: "C01".into(), gen: "T-tag-splits".into(), text: gen::nth_tag_split(j / 5), input: if j % 2 == 0 { InputKind::Str } else { InputKind::Buffered }, client, ..Case::default() };
        }
        let exhaustive = exhaustive - tsn;
        // before it: the (context, follower, suffix) triples, plain iteration and one loader
        let ctxn = gen::count_context_cases() * 2;
        if i >= exhaustive - ctxn {
            let j = i - (exhaustive - ctxn);
            let (input, client) = if j % 2 == 0 { (InputKind::Str, Client::Iterate) } else { (InputKind::Buffered, Client::Loader(((j / 2) % 4) as u8, 0)) };
            return Case { prop: "C01".into(), gen: "X-context-follower".into(), text: gen::nth_context_case(j / 2), input, client, ..Case::default() };
        }
        let exhaustive = exhaustive - ctxn;
        let esc = gen::escape_pair_count() * 3;
        if i >= exhaustive - esc {
            let j = i - (exhaustive - esc);
            let (input, client) = match j % 3 {
                0 => (InputKind::Str, Client::Iterate),
                1 => (InputKind::Buffered, Client::Loader(0, 0)),
                _ => (InputKind::Ring(8, Policy::PushBack), Client::Loader(3, 0)),
            };
            return Case { prop: "C01".into(), gen: "E-escape-pairs".into(), text: gen::nth_escape_pair(j / 3), input, client, ..Case::default() };
        }
        let exhaustive = exhaustive - esc;
        // before it: every token pair repeated n times, through iterate (str) and load (buffered)
        let rep = gen::repeat_count() * 2;
        if i >= exhaustive - rep {
            let j = i - (exhaustive - rep);
            let (input, client) = if j % 2 == 0 { (InputKind::Str, Client::Iterate) } else { (InputKind::Buffered, Client::LoadMulti) };
            return Case { prop: "C01".into(), gen: "R-repeat".into(), text: gen::nth_repeat(j / 2), input, client, ..Case::default() };
        }
        let exhaustive = exhaustive - rep;
        // before it: sliding multi-byte cases, each through iterate and the four loaders
        let slide = gen::slide_count() * 5;
        if i >= exhaustive - slide {
            let j = i - (exhaustive - slide);
            let client = match j % 5 {
                0 => Client::Iterate,
                n => Client::Loader((n - 1) as u8, if j % 2 == 0 { 0 } else { 2 }),
            };
            return Case { prop: "C01".into(), gen: "S-sliding".into(), text: gen::nth_slide(j / 5), input: if j % 3 == 0 { InputKind::Buffered } else { InputKind::Str }, client, ..Case::default() };
        }
        let exhaustive = exhaustive - slide;
        // first the W5 character strings, then the W8 token strings, each x 6 environments
        let w5 = gen::w5_count(if exhaustive > 5_000_000 { 5 } else { 4 });
        let k = i / n_env;
        return Case {
            prop: "C01".into(),
            gen: if k < w5 { "W5-exhaustive".into() } else { "W8-tokens".into() },
            text: if k < w5 { gen::w5_nth(k) } else { gen::nth_token_string(k - w5) },
            input: kind,
            peeks: if client == Client::PeekNext { vec![1, 0, 2] } else { vec![] },
            extra_calls: 1,
            client,
            ..Case::default()
        };
    }
    let mut g = Gen::new(run_seed, corpus, sw);
    let (gname, text) = g.text();
    let mut r = SplitMix64::new(run_seed ^ 0xC01C_01C0);
    let n = text.chars().count();
    let eof_at = if n > 0 && r.chance(1, 5) { Some(r.usize(n)) } else { None };
    let input = draw_input(&mut r);
    let client = match r.below(12) {
        0..=2 => Client::Iterate,
        3..=5 => Client::PeekNext,
        6 => Client::LoadMulti,
        7 => Client::LoadSingle,
        _ => Client::Loader(r.below(4) as u8, *r.pick(&[0u8, 0, 0, 0, 3, 1, 1, 1, 3, 2])),
    };
    let peeks = if client == Client::PeekNext {
        let k = 1 + r.usize(7);
        let heavy = *r.pick(&[1u64, 5, 9]);
        (0..k).map(|_| if r.below(10) < heavy { 1 + r.below(2) as u8 } else { 0 }).collect()
    } else {
        vec![]
    };
    Case {
        prop: "C01".into(),
        gen: gname.into(),
        text,
        eof_at,
        input,
        client,
        peeks,
        extra_calls: r.below(3) as u8,
        keep_tags: r.chance(1, 8),
        ..Case::default()
    }
}

/// A receiver that only counts (and ticks), for the push interface.
pub struct CountingRecv {
    pub events: u64,
    pub saw_stream_end: bool,
    pub docs: u64,
    pub depth: u64,
    pub max_depth: u64,
    pub limit: u64,
}

impl CountingRecv {
    pub fn new(limit: u64) -> Self {
        CountingRecv { events: 0, saw_stream_end: false, docs: 0, depth: 0, max_depth: 0, limit }
    }
}

impl<'a> SpannedEventReceiver<'a> for CountingRecv {
    fn on_event(&mut self, ev: Event<'a>, _span: Span) {
        clock::tick_op(50, ev_kind(&ev));
        self.events += 1;
        match ev {
            Event::StreamEnd => self.saw_stream_end = true,
            Event::DocumentStart(_) => self.docs += 1,
            Event::SequenceStart(..) | Event::MappingStart(..) => {
                self.depth += 1;
                self.max_depth = self.max_depth.max(self.depth);
            }
            Event::SequenceEnd | Event::MappingEnd => self.depth = self.depth.saturating_sub(1),
            _ => {}
        }
        if self.events > self.limit {
            clock::disarm();
            std::panic::panic_any(clock::BudgetExceeded { ticks: clock::ticks() });
        }
    }
}

struct Drive<'c> {
    case: &'c Case,
    max_events: usize,
}

pub struct DriveResult {
    pub end: End,
    pub events: u64,
    pub max_depth: u64,
}

fn after_end_calls<I: Input>(p: &mut Parser<'_, I>, extra: u8) -> Option<String> {
    for k in 0..extra {
        clock::probe(Probe::CallsAfterEnd);
        let r = if k % 2 == 0 { p.next_event().map(|_| ()) } else { p.peek().map(|_| ()) };
        if r.is_some() {
            return Some(format!("call {k} after StreamEnd returned Some"));
        }
    }
    None
}

impl ParserVisitor for Drive<'_> {
    type Out = DriveResult;
    fn construct_failed(self, end: End) -> DriveResult {
        DriveResult { end, events: 0, max_depth: 0 }
    }
    fn visit<'a, I: Input>(self, mut p: Parser<'a, I>) -> DriveResult {
        let case = self.case;
        let max_events = self.max_events as u64;
        let mut events = 0u64;
        let mut max_depth = 0u64;
        let g = guarded(|| match &case.client {
            Client::Iterate | Client::PeekNext => {
                let mut depth = 0u64;
                let mut idx = 0usize;
                loop {
                    if case.client == Client::PeekNext && !case.peeks.is_empty() {
                        let k = case.peeks[idx % case.peeks.len()];
                        for j in 0..k {
                            if j > 0 {
                                clock::probe(Probe::PeekRepeated);
                            }
                            clock::tick_op(51, 0);
                            match p.peek() {
                                None => return End::Protocol("peek returned None before StreamEnd".into()),
                                Some(Err(e)) => {
                                    clock::probe(Probe::PeekAtError);
                                    return End::Err(e);
                                }
                                Some(Ok(_)) => {}
                            }
                        }
                    }
                    idx += 1;
                    clock::tick_op(52, 0);
                    match p.next() {
                        None => return End::Protocol("next returned None before StreamEnd".into()),
                        Some(Err(e)) => return End::Err(e),
                        Some(Ok((ev, _span))) => {
                            events += 1;
                            clock::fp_mix(ev_kind(&ev));
                            match ev {
                                Event::SequenceStart(..) | Event::MappingStart(..) => {
                                    depth += 1;
                                    max_depth = max_depth.max(depth);
                                }
                                Event::SequenceEnd | Event::MappingEnd => depth = depth.saturating_sub(1),
                                Event::StreamEnd => {
                                    if let Some(m) = after_end_calls(&mut p, case.extra_calls) {
                                        return End::Protocol(m);
                                    }
                                    return End::Complete;
                                }
                                _ => {}
                            }
                            if events > max_events {
                                return End::Hang(clock::ticks());
                            }
                        }
                    }
                }
            }
            Client::LoadMulti => {
                let mut recv = CountingRecv::new(max_events);
                let r = p.load(&mut recv, true);
                events = recv.events;
                max_depth = recv.max_depth;
                match r {
                    Ok(()) => {
                        if recv.saw_stream_end {
                            End::Complete
                        } else {
                            End::Protocol("load(multi=true) returned Ok without delivering StreamEnd".into())
                        }
                    }
                    Err(e) => End::Err(e),
                }
            }
            Client::LoadSingle => {
                let mut recv = CountingRecv::new(max_events);
                let mut calls = 0u64;
                let end = loop {
                    calls += 1;
                    clock::tick_op(53, calls);
                    match p.load(&mut recv, false) {
                        Err(e) => break End::Err(e),
                        Ok(()) => {
                            if recv.saw_stream_end {
                                break End::Complete;
                            }
                            if calls > max_events + 8 {
                                break End::Hang(clock::ticks());
                            }
                        }
                    }
                };
                if recv.docs > 1 {
                    clock::probe(Probe::LoadSingleMultiDoc);
                }
                events = recv.events;
                max_depth = recv.max_depth;
                end
            }
            Client::Loader(node, 3) => {
                // deferred resolution: the public YamlLoader with early_parse(false) driven through
                // the push interface, then the scalars resolved afterwards
                use saphyr::YamlLoader;
                macro_rules! lazy {
                    ($t:ty, $resolve:expr) => {{
                        let mut loader: YamlLoader<'_, $t> = YamlLoader::default();
                        loader.early_parse(false);
                        match p.load(&mut loader, true) {
                            Ok(()) => {
                                let mut docs = loader.into_documents();
                                let n = docs.len() as u64;
                                #[allow(clippy::redundant_closure_call)]
                                for d in &mut docs {
                                    ($resolve)(d);
                                }
                                drop(docs);
                                (End::Complete, n)
                            }
                            Err(e) => (End::Err(e), 0),
                        }
                    }};
                }
                let (end, n) = match node % 4 {
                    0 => lazy!(Yaml<'_>, |d: &mut Yaml<'_>| { d.parse_representation_recursive(); }),
                    1 => lazy!(YamlOwned, |d: &mut YamlOwned| { d.parse_representation_recursive(); }),
                    2 => lazy!(MarkedYaml<'_>, |d: &mut MarkedYaml<'_>| { d.data.parse_representation_recursive(); }),
                    _ => lazy!(MarkedYamlOwned, |d: &mut MarkedYamlOwned| { d.data.parse_representation_recursive(); }),
                };
                events = n;
                end
            }
            Client::Loader(node, _) => {
                fn fin<T>(r: Result<Vec<T>, ScanError>) -> (End, u64) {
                    match r {
                        Ok(d) => {
                            let n = d.len() as u64;
                            drop(d);
                            (End::Complete, n)
                        }
                        Err(e) => (End::Err(e), 0),
                    }
                }
                let (end, n) = match node % 4 {
                    0 => fin(Yaml::load_from_parser(&mut p)),
                    1 => fin(YamlOwned::load_from_parser(&mut p)),
                    2 => fin(MarkedYaml::load_from_parser(&mut p)),
                    _ => fin(MarkedYamlOwned::load_from_parser(&mut p)),
                };
                events = n;
                end
            }
        });
        let end = match g {
            Guarded::Ok(e) => e,
            Guarded::Panic(m) => End::Panic(m),
            Guarded::Hang(t) => End::Hang(t),
        };
        DriveResult { end, events, max_depth }
    }
}

fn loader_direct(case: &Case, prep: &Prepared, node: u8, via: u8) -> DriveResult {
    fn fin<T>(r: Result<Vec<T>, ScanError>) -> (End, u64) {
        match r {
            Ok(d) => {
                let n = d.len() as u64;
                drop(d);
                (End::Complete, n)
            }
            Err(e) => (End::Err(e), 0),
        }
    }
    let _ = case;
    let g = guarded(|| {
        if via == 1 {
            let src = SimSource::new(prep.chars.clone(), prep.eof_at);
            match node % 4 {
                0 => fin(Yaml::load_from_iter(src)),
                1 => fin(YamlOwned::load_from_iter(src)),
                2 => fin(MarkedYaml::load_from_iter(src)),
                _ => fin(MarkedYamlOwned::load_from_iter(src)),
            }
        } else {
            match node % 4 {
                0 => fin(Yaml::load_from_str(&prep.cut)),
                1 => fin(YamlOwned::load_from_str(&prep.cut)),
                2 => fin(MarkedYaml::load_from_str(&prep.cut)),
                _ => fin(MarkedYamlOwned::load_from_str(&prep.cut)),
            }
        }
    });
    match g {
        Guarded::Ok((end, n)) => DriveResult { end, events: n, max_depth: 0 },
        Guarded::Panic(m) => DriveResult { end: End::Panic(m), events: 0, max_depth: 0 },
        Guarded::Hang(t) => DriveResult { end: End::Hang(t), events: 0, max_depth: 0 },
    }
}

/// The memory clock's budget: peak of live bytes allocated by the run's thread (library and
/// harness trace together). The scanner reserves `bufmaxlen()` bytes for every plain scalar, so
/// the budget has a term in the input's capacity. Observed maximum on the pinned tree: about
/// 940 bytes per character (a `- - - ...` nest loaded into MarkedYamlOwned nodes: a node, a
/// Vec of four slots and the parser's state per two characters), i.e. 8 % of this budget.
pub fn mem_budget(n_chars: usize, capacity: usize) -> u64 {
    65_536 + (n_chars as u64 + 16) * (8192 + 4 * capacity as u64)
}

pub fn execute(case: &Case, record_seed: Option<u64>) -> Outcome {
    let prep = Prepared::new(&case.text, case.eof_at, case.keep_tags);
    let n = prep.n_chars;
    let tape = match record_seed {
        Some(s) => Tape::record(s),
        None => Tape::replay(case.tape.clone()),
    };
    crate::trace::nested_init();
    clock::begin(work_budget(n), tape);
    clock::arm_nested();
    crate::alloc::tl_start();
    let res = match case.client {
        Client::Loader(node, via) if via == 1 || via == 2 => loader_direct(case, &prep, node, via),
        _ => with_parser(case.input, &prep, Drive { case, max_events: event_budget(n) }),
    };
    let (_, mem_peak) = crate::alloc::tl_stop();
    let ticks = clock::ticks();
    let work = clock::work();
    let mut out = Outcome {
        work,
        mem_peak,
        n_chars: n as u64,
        events: res.events,
        ticks,
        sub_runs: 1,
        ..Outcome::default()
    };
    match &res.end {
        End::Complete => clock::probe(Probe::CompleteRuns),
        End::Err(_) => clock::probe(Probe::ErrorRuns),
        _ => {}
    }
    if res.max_depth >= 8 {
        clock::probe(Probe::DeepNest8);
    }
    if res.end.is_bad() {
        let loc = if matches!(res.end, End::Panic(_)) {
            crate::trace::last_panic_loc().map(|l| format!(" at {l}")).unwrap_or_default()
        } else {
            String::new()
        };
        out.violation = Some((
            res.end.class(),
            format!(
                "{}{loc} [input={} client={} after {} events, {} seam ticks, {work} work ticks, {} chars]",
                res.end.describe(),
                case.input.describe(),
                case.client.describe(),
                res.events,
                ticks,
                n
            ),
        ));
    }
    if let Some(msg) = clock::take_nested_wrong() {
        if out.violation.is_none() {
            out.violation = Some(("WRONG-RESULT(nested-parse)".into(), msg));
        }
    }
    let budget = mem_budget(n, case.input.capacity());
    out.mem_budget = budget;
    if out.violation.is_none() && mem_peak > budget {
        out.violation = Some((
            "MEMORY(peak-budget)".into(),
            format!(
                "{mem_peak} bytes live at the peak for {n} characters, budget {budget} [input={} client={} after {} events then {}]",
                case.input.describe(),
                case.client.describe(),
                res.events,
                res.end.describe()
            ),
        ));
    }
    out.summary = format!("{} events then {}", res.events, res.end.describe());
    out.fingerprint = clock::fingerprint();
    out.nontrivial = res.events >= 4 || ticks >= 40 || clock::run_faults() >= 1;
    out.tape = clock::end().rec;
    let _ = IterateAll { max_events: 0 };
    out
}
