//! The crash observer. A batch runs in a child process (under `ulimit -v`, so a runaway
//! allocation is an observable death and not an OOM of the machine). The child announces each
//! chunk of runs before executing it. If the child dies by a signal (abort, stack overflow,
//! allocation failure), the parent knows which chunks were in flight, re-executes them run by
//! run in fresh children to find the culprit, minimises it with one child per candidate, and
//! reports it with a replay file. The wall clock is never consulted by a run.

use crate::batch::{self, Config};
use crate::case::Case;
use crate::json::J;
use std::collections::BTreeMap;
use std::io::{BufRead, BufReader, Write};
use std::os::unix::process::ExitStatusExt;
use std::process::{Command, Stdio};

const VMEM_KB: u64 = 28 * 1024 * 1024;

fn self_exe() -> Result<std::path::PathBuf, String> {
    std::env::current_exe().map_err(|e| e.to_string())
}

/// Spawn `simcheck <args>` under the memory limit with SIM_CHILD=1 and stdout piped.
fn spawn_child(args: &[String]) -> Result<std::process::Child, String> {
    let exe = self_exe()?;
    // Build: sh -c 'ulimit -v N; exec "$0" "$1" "$2" ...' exe args...
    let mut script = format!("ulimit -v {VMEM_KB} 2>/dev/null; exec \"$0\"");
    for k in 1..=args.len() {
        script.push_str(&format!(" \"${k}\""));
    }
    Command::new("sh")
        .arg("-c")
        .arg(script)
        .arg(exe)
        .args(args)
        .env("SIM_CHILD", "1")
        .stdin(Stdio::null())
        .stdout(Stdio::piped())
        .stderr(Stdio::inherit())
        .spawn()
        .map_err(|e| e.to_string())
}

pub struct ChildRun {
    pub code: Option<i32>,
    pub signal: Option<i32>,
    pub timed_out: bool,
    pub last_chunk: BTreeMap<u64, u64>,
    pub last_run: Option<u64>,
    pub lines: Vec<String>,
}

/// Run a child, forwarding its ordinary output (if `forward`) and tracking its announcements.
/// With `timeout_s`, a child that is still alive after that much wall time is killed.
fn run_child(args: &[String], forward: bool, timeout_s: Option<u64>) -> Result<ChildRun, String> {
    let mut ch = spawn_child(args)?;
    let so = ch.stdout.take().ok_or("no stdout")?;
    let reader = std::thread::spawn(move || {
        let mut last_chunk = BTreeMap::new();
        let mut last_run = None;
        let mut lines = Vec::new();
        for line in BufReader::new(so).lines() {
            let Ok(line) = line else { break };
            if let Some(rest) = line.strip_prefix("@@SIM ") {
                let p: Vec<&str> = rest.split_whitespace().collect();
                match p.first().copied() {
                    Some("B") if p.len() >= 3 => {
                        if let (Ok(w), Ok(c)) = (p[1].parse::<u64>(), p[2].parse::<u64>()) {
                            last_chunk.insert(w, c);
                        }
                    }
                    Some("R") if p.len() >= 2 => last_run = p[1].parse::<u64>().ok(),
                    _ => {}
                }
            } else {
                if forward {
                    println!("{line}");
                    let _ = std::io::stdout().flush();
                }
                lines.push(line);
            }
        }
        (last_chunk, last_run, lines)
    });
    let t0 = std::time::Instant::now();
    let mut timed_out = false;
    let st = loop {
        match ch.try_wait().map_err(|e| e.to_string())? {
            Some(st) => break st,
            None => {
                if let Some(t) = timeout_s {
                    if t0.elapsed().as_secs() >= t {
                        timed_out = true;
                        let _ = ch.kill();
                        break ch.wait().map_err(|e| e.to_string())?;
                    }
                }
                std::thread::sleep(std::time::Duration::from_millis(10));
            }
        }
    };
    let (last_chunk, last_run, lines) = reader.join().map_err(|_| "reader thread".to_string())?;
    // `sh -c exec` replaces the shell, so the status is the child's own; a shell that did not
    // exec reports a signal death as 128+n.
    let (code, signal) = match (st.code(), st.signal()) {
        (Some(c), _) if c > 128 => (None, Some(c - 128)),
        (c, s) => (c, s),
    };
    Ok(ChildRun { code, signal, timed_out, last_chunk, last_run, lines })
}

/// Entry point of `simcheck run <prop> <tier>` for the batch properties.
pub fn run(cfg: &Config) -> i32 {
    let args = vec!["run-child".to_string(), cfg.prop.clone(), cfg.tier.clone()];
    let r = match run_child(&args, true, None) {
        Ok(r) => r,
        Err(e) => {
            eprintln!("harness error: cannot run child: {e}");
            return 2;
        }
    };
    if let Some(c) = r.code {
        if c == 0 && cfg.prop == "C01" {
            let c2 = c01_instruction_clock(cfg);
            if c2 != 0 {
                return c2;
            }
            return c01_flat_stack(cfg);
        }
        if c == 0 && cfg.prop == "C18" {
            return c18_decoder_stack(cfg);
        }
        if (0..=2).contains(&c) {
            return c;
        }
    }
    let how = r.signal.map_or_else(|| format!("exit code {:?}", r.code), |s| format!("signal {s}"));
    println!("batch child died ({how}); looking for the run that kills it among the chunks in flight: {:?}", r.last_chunk.values().collect::<Vec<_>>());
    let mut chunks: Vec<u64> = r.last_chunk.values().copied().collect();
    chunks.sort_unstable();
    chunks.dedup();
    for c in chunks {
        let a = vec!["careful".to_string(), cfg.prop.clone(), cfg.tier.clone(), c.to_string()];
        match run_child(&a, false, Some(600)) {
            Ok(cr) if cr.code == Some(0) => continue,
            Ok(cr) if cr.code == Some(4) => {
                println!("chunk {c} holds a run that violates the property without dying alone: re-running that chunk by itself");
                std::env::set_var("SIM_ONLY_CHUNK", c.to_string());
                std::env::set_var("VERIF_JOBS", "1");
                let args = vec!["run-child".to_string(), cfg.prop.clone(), cfg.tier.clone()];
                return match run_child(&args, true, None) {
                    Ok(r) if r.code == Some(1) => 1,
                    Ok(r) => {
                        eprintln!("harness error: chunk {c} alone ended with {:?} / signal {:?}", r.code, r.signal);
                        2
                    }
                    Err(e) => {
                        eprintln!("harness error: {e}");
                        2
                    }
                };
            }
            Ok(cr) => {
                if let Some(i) = cr.last_run {
                    let sig = cr.signal.map_or_else(|| format!("exit {:?}", cr.code), |s| format!("signal {s}"));
                    return report_crash(cfg, i, &sig);
                }
            }
            Err(e) => {
                eprintln!("harness error: {e}");
                return 2;
            }
        }
    }
    eprintln!("harness error: the batch child died ({how}) but no single run reproduces the death in isolation");
    2
}

/// C01's linear-work clause under the instruction clock (see `scale.rs`), run after a clean
/// batch; its findings are merged into the evidence file the batch child wrote.
fn c01_instruction_clock(cfg: &Config) -> i32 {
    if std::env::var_os("SIM_NO_SCALE").is_some() {
        return 0;
    }
    let (code, frag) = crate::scale::run(cfg);
    if cfg.write_evidence && frag != J::Null {
        let path = format!("{}/evidence/{}.json", cfg.verif_dir, cfg.prop);
        if let Ok(s) = std::fs::read_to_string(&path) {
            if let Ok(mut j) = J::parse(&s) {
                if let Some(cov) = j.get("coverage").cloned() {
                    let mut cov = cov;
                    cov.set("instruction_clock_scaling", frag);
                    j.set("coverage", cov);
                    if code == 1 {
                        j.set("violations", J::int(1));
                    }
                    let _ = std::fs::write(&path, j.to_pretty());
                }
            }
        }
    }
    code
}

/// C01's "never aborts" for flat inputs under a finite stack (see `c11::flat_grid`).
fn c01_flat_stack(cfg: &Config) -> i32 {
    if std::env::var_os("SIM_NO_SCALE").is_some() {
        return 0;
    }
    let (code, frag) = crate::c11::flat_grid(cfg);
    if cfg.write_evidence && frag != J::Null {
        let path = format!("{}/evidence/{}.json", cfg.verif_dir, cfg.prop);
        if let Ok(s) = std::fs::read_to_string(&path) {
            if let Ok(mut j) = J::parse(&s) {
                if let Some(cov) = j.get("coverage").cloned() {
                    let mut cov = cov;
                    cov.set("flat_input_stack_scenarios", frag);
                    j.set("coverage", cov);
                    if code == 1 {
                        j.set("violations", J::int(1));
                    }
                    let _ = std::fs::write(&path, j.to_pretty());
                }
            }
        }
    }
    code
}

/// C18's "never panics or loops" under a finite stack: long malformed runs through every trap in
/// supervised child processes (see `c11::decoder_grid`); merged into the batch child's evidence.
fn c18_decoder_stack(cfg: &Config) -> i32 {
    if std::env::var_os("SIM_NO_SCALE").is_some() {
        return 0;
    }
    let (code, frag) = crate::c11::decoder_grid(cfg);
    if cfg.write_evidence && frag != J::Null {
        let path = format!("{}/evidence/{}.json", cfg.verif_dir, cfg.prop);
        if let Ok(s) = std::fs::read_to_string(&path) {
            if let Ok(mut j) = J::parse(&s) {
                if let Some(cov) = j.get("coverage").cloned() {
                    let mut cov = cov;
                    cov.set("decoder_stack_scenarios", frag);
                    j.set("coverage", cov);
                    if code == 1 {
                        j.set("violations", J::int(1));
                    }
                    let _ = std::fs::write(&path, j.to_pretty());
                }
            }
        }
    }
    code
}

fn crashes(case: &Case, dir: &str) -> Option<String> {
    let tmp = format!("{dir}/replays/.crash-candidate-{}.json", std::process::id());
    let j = J::obj().with("case", case.to_json());
    std::fs::write(&tmp, j.to_pretty()).ok()?;
    let r = run_child(&["replay-child".to_string(), tmp.clone()], false, Some(45)).ok();
    let _ = std::fs::remove_file(&tmp);
    let r = r?;
    match (r.code, r.signal) {
        (Some(0 | 1 | 2), _) => None,
        (_, Some(s)) => Some(format!("signal {s}")),
        (c, _) => Some(format!("exit {c:?}")),
    }
}

fn report_crash(cfg: &Config, i: u64, sig: &str) -> i32 {
    let ctx = match crate::make_ctx(cfg) {
        Ok(c) => c,
        Err(e) => {
            eprintln!("harness error: {e}");
            return 2;
        }
    };
    let (_, ex, _) = batch::plan(&cfg.prop, &cfg.tier, &ctx);
    let sw = batch::swarm_for(&ctx, i);
    let original = batch::generate(&ctx, i, &sw, ex);
    let _ = std::fs::create_dir_all(format!("{}/replays", cfg.verif_dir));
    // minimise with one child process per candidate (text by lines, then by characters)
    let mut best = original.clone();
    let mut steps = 0u64;
    // every candidate costs a process (and, for a death by memory exhaustion, the time it takes to
    // exhaust it): bound the whole minimisation by wall-clock time, report what was reached
    let t_min = std::time::Instant::now();
    let in_time = || t_min.elapsed() < std::time::Duration::from_secs(180);
    if crashes(&best, &cfg.verif_dir).is_some() {
        if best.eof_at.is_some() {
            let mut c = best.clone();
            let e = c.eof_at.take().unwrap();
            c.text = c.text.chars().take(e).collect();
            steps += 1;
            if crashes(&c, &cfg.verif_dir).is_some() {
                best = c;
            }
        }
        for unit_lines in [true, false] {
            let mut n = 2usize;
            loop {
                let items: Vec<String> = if unit_lines {
                    best.text.split_inclusive('\n').map(str::to_string).collect()
                } else {
                    best.text.chars().map(|c| c.to_string()).collect()
                };
                if items.len() < 2 || steps > 200 || !in_time() {
                    break;
                }
                let chunk = items.len().div_ceil(n);
                let mut reduced = false;
                let mut start = 0;
                while start < items.len() && steps <= 200 && in_time() {
                    let end = (start + chunk).min(items.len());
                    let mut c = best.clone();
                    c.text = items[..start].concat() + &items[end..].concat();
                    steps += 1;
                    if crashes(&c, &cfg.verif_dir).is_some() {
                        best = c;
                        n = (n - 1).max(2);
                        reduced = true;
                        break;
                    }
                    start = end;
                }
                if !reduced {
                    if n >= items.len() {
                        break;
                    }
                    n = (n * 2).min(items.len());
                }
            }
        }
    }
    let class = format!("CRASH({sig})");
    let detail = format!("the process executing run {i} died ({sig}): an abort, stack overflow or allocation failure inside the library");
    let path = format!("{}/replays/{}-{}-{}.json", cfg.verif_dir, cfg.prop, cfg.seed, i);
    let rj = batch::replay_json(cfg, i, &best, &class, &detail, Some((&original, &detail)), steps);
    if let Err(e) = std::fs::write(&path, rj.to_pretty()) {
        eprintln!("harness error: cannot write {path}: {e}");
        return 2;
    }
    println!("violation class={class} run={i} seed={} detail={detail}", cfg.seed);
    println!("VIOLATION property={} replay={path}", cfg.prop);
    if cfg.write_evidence {
        let cov = J::obj()
            .with("evaluations", J::int(i.max(1)))
            .with("distinct_nontrivial", J::int(2))
            .with("rule", J::str("batch aborted by a process death; counts are lower bounds (runs before the crashing run)"))
            .with("samples", J::Arr(vec![best.to_json()]))
            .with("violation", J::obj().with("class", J::str(&class)).with("replay", J::str(&path)));
        let ev = J::obj()
            .with("property_id", J::str(&cfg.prop))
            .with("tier", J::str(&cfg.tier))
            .with("seed", J::int(cfg.seed as i64))
            .with("level", J::str("exploration"))
            .with("coverage", cov)
            .with("wall_s", J::Float(0.0))
            .with("violations", J::int(1));
        let _ = std::fs::create_dir_all(format!("{}/evidence", cfg.verif_dir));
        let _ = std::fs::write(format!("{}/evidence/{}.json", cfg.verif_dir, cfg.prop), ev.to_pretty());
    }
    1
}

/// `simcheck careful <prop> <tier> <chunk>`: execute one chunk run by run, announcing each.
pub fn careful(cfg: &Config, chunk: u64) -> i32 {
    let ctx = match crate::make_ctx(cfg) {
        Ok(c) => c,
        Err(e) => {
            eprintln!("harness error: {e}");
            return 2;
        }
    };
    let (mut total, ex, _) = batch::plan(&cfg.prop, &cfg.tier, &ctx);
    if let Some(r) = cfg.runs {
        total = ex + r;
    }
    let h = std::thread::Builder::new().stack_size(256 << 20).spawn(move || {
        for i in chunk * batch::CHUNK..((chunk + 1) * batch::CHUNK).min(total) {
            {
                let out = std::io::stdout();
                let mut l = out.lock();
                let _ = writeln!(l, "@@SIM R {i}");
                let _ = l.flush();
            }
            let sw = batch::swarm_for(&ctx, i);
            let case = batch::generate(&ctx, i, &sw, ex);
            let seed = crate::rng::mix(ctx.cfg.seed, batch::prop_num(&ctx.cfg.prop) ^ 0x7A9E, i);
            if batch::execute(&case, Some(seed)).violation.is_some() {
                // alive, but violating: the batch died of several such runs together
                return 4;
            }
        }
        0
    });
    match h.map(std::thread::JoinHandle::join) {
        Ok(Ok(c)) => c,
        _ => 2,
    }
}

/// `simcheck --replay <file>` for batch properties: execute in a child so that a crash is observed.
pub fn replay(path: &str, prop: &str) -> i32 {
    let limit: u64 = std::env::var("SIM_STALL_MS").ok().and_then(|v| v.parse::<u64>().ok()).map_or(20, |ms| ms.div_ceil(1000).max(1));
    let r = match run_child(&["replay-child".to_string(), path.to_string()], true, Some(limit)) {
        Ok(r) => r,
        Err(e) => {
            eprintln!("harness error: {e}");
            return 2;
        }
    };
    if r.timed_out {
        println!("violation class=HANG(watchdog) detail=the process replaying {path} did not finish within {limit} s of wall time");
        println!("VIOLATION property={prop} replay={path}");
        return 1;
    }
    if let Some(c) = r.code {
        if (0..=2).contains(&c) {
            return c;
        }
    }
    let sig = r.signal.map_or_else(|| format!("exit {:?}", r.code), |s| format!("signal {s}"));
    println!("violation class=CRASH({sig}) detail=the process replaying {path} died ({sig})");
    println!("VIOLATION property={prop} replay={path}");
    1
}
