#!/bin/sh
# Sensitivity: apply each /verif/mutants/*.patch to /repo's working tree (never committed), run
# the quick check of the property it is meant to break, restore the tree. Every mutant must be
# reported as a VIOLATION (exit 1). Usage: tools/sensitivity.sh [--with-tests] [name-filter]
set -u
VERIF_DIR="${VERIF_DIR:-/verif}"
WITH_TESTS=0
[ "${1:-}" = "--with-tests" ] && { WITH_TESTS=1; shift; }
FILTER="${1:-}"
# Work in a scratch worktree of /repo's HEAD (removed at the end); /repo itself is never touched.
SCRATCH="${SIM_SCRATCH:-/tmp/simscratch-$$}"
git -C /repo worktree add -q --detach "$SCRATCH" HEAD || { echo "cannot create scratch worktree"; exit 2; }
cp /repo/Cargo.lock "$SCRATCH/Cargo.lock" 2>/dev/null
export SIM_REPO="$SCRATCH"
cleanup() { git -C /repo worktree remove --force "$SCRATCH" 2>/dev/null; rm -rf "/tmp/simshadow/$(printf %s "$SCRATCH" | tr -c 'A-Za-z0-9' _)"; }
trap cleanup EXIT INT TERM
mkdir -p "$VERIF_DIR/sim/target/sens"
missed=0
while IFS="$(printf '\t')" read -r name prop note; do
    case "$name" in *"$FILTER"*) ;; *) continue ;; esac
    git -C "$SCRATCH" apply "$VERIF_DIR/mutants/$name.patch" || { echo "$name: patch does not apply"; missed=$((missed+1)); continue; }
    tests="-"
    if [ "$WITH_TESTS" = 1 ]; then
        # a mutant may make a test loop or allocate without bound: bound both
        if (cd "$SCRATCH" && ulimit -v 8388608 && CARGO_NET_OFFLINE=true timeout -k 5 240 cargo test --workspace --no-fail-fast --offline >"$VERIF_DIR/sim/target/sens/$name.tests" 2>&1); then tests="suite-green"; else tests="suite-RED"; fi
        pkill -f "$SCRATCH/target/debug/deps" 2>/dev/null
    fi
    t0=$(date +%s)
    SIM_NO_EVIDENCE=1 "$VERIF_DIR/check" "$prop" quick >"$VERIF_DIR/sim/target/sens/$name.out" 2>&1
    rc=$?
    t1=$(date +%s)
    git -C "$SCRATCH" checkout -- .
    cls=$(grep -m1 '^violation class=' "$VERIF_DIR/sim/target/sens/$name.out" | cut -c1-150)
    if [ "$rc" = 1 ]; then verdict="CAUGHT"; else verdict="MISSED(rc=$rc)"; missed=$((missed+1)); fi
    printf '%-34s %-4s %-14s %-11s %3ss  %s\n' "$name" "$prop" "$verdict" "$tests" "$((t1-t0))" "$cls"
done < "$VERIF_DIR/mutants/INDEX.tsv"
git -C "$SCRATCH" checkout -- . 2>/dev/null
rm -f "$VERIF_DIR"/replays/*.json
echo "missed: $missed"
[ "$missed" = 0 ]
