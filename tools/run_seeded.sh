#!/bin/sh
# Apply each /verif/seeded/<id>/patch.diff to /repo's working tree (never committed), run the quick
# check of the property it breaks (or all five with --all), restore the tree.
set -u
VERIF_DIR="${VERIF_DIR:-/verif}"
ALL=0; [ "${1:-}" = "--all" ] && { ALL=1; shift; }
FILTER="${1:-}"
# Work in a scratch worktree of /repo's HEAD (removed at the end); /repo itself is never touched.
SCRATCH="${SIM_SCRATCH:-/tmp/simscratch-$$}"
git -C /repo worktree add -q --detach "$SCRATCH" HEAD || { echo "cannot create scratch worktree"; exit 2; }
cp /repo/Cargo.lock "$SCRATCH/Cargo.lock" 2>/dev/null
export SIM_REPO="$SCRATCH"
cleanup() { git -C /repo worktree remove --force "$SCRATCH" 2>/dev/null; rm -rf "/tmp/simshadow/$(printf %s "$SCRATCH" | tr -c 'A-Za-z0-9' _)"; }
trap cleanup EXIT INT TERM
mkdir -p "$VERIF_DIR/sim/target/sens"
missed=0
for d in "$VERIF_DIR"/seeded/*/; do
    n=$(basename "$d")
    case "$n" in *"$FILTER"*) ;; *) continue ;; esac
    prop=$(python3 -c "import json,sys; print(json.load(open('$d/meta.json'))['breaks_property'])")
    oos=$(python3 -c "import json,sys; m=json.load(open('$d/meta.json')); print(int(bool(m.get('out_of_scope') or m.get('thorough_only') or m.get('beyond_search'))))")
    props="$prop"; [ "$ALL" = 1 ] && props="C01 C10 C11 C17 C18"
    git -C "$SCRATCH" apply "$d/patch.diff" || { echo "$n: patch does not apply"; missed=$((missed+1)); continue; }
    for p in $props; do
        t0=$(date +%s)
        SIM_NO_EVIDENCE=1 "$VERIF_DIR/check" "$p" quick >"$VERIF_DIR/sim/target/sens/seeded-$n-$p.out" 2>&1; rc=$?
        t1=$(date +%s)
        cls=$(grep -m1 '^violation class=' "$VERIF_DIR/sim/target/sens/seeded-$n-$p.out" | cut -c1-170)
        if [ "$rc" = 1 ]; then verdict="CAUGHT"; elif [ "$oos" = 1 ]; then verdict="quiet(expected: out-of-scope, thorough-only or beyond-search)"; else verdict="quiet(rc=$rc)"; [ "$p" = "$prop" ] && missed=$((missed+1)); fi
        printf '%-6s %-4s %-12s %3ss  %s\n' "$n" "$p" "$verdict" "$((t1-t0))" "$cls"
    done
    git -C "$SCRATCH" checkout -- .
done
rm -f "$VERIF_DIR"/replays/*.json
echo "missed: $missed"
[ "$missed" = 0 ]
