#!/usr/bin/env python3
"""One-off: extract the `yaml:` fields of /repo/parser/tests/yaml-test-suite/src/*.yaml
into /verif/corpus/suite.txt so that the simulator's workload does not depend on the
system under test to read its own corpus.

Format of suite.txt: records separated by a line "\x1e<name>"; the record body is the raw
document text with visual markers decoded exactly as parser/tests/yaml-test-suite.rs does.
Bodies are stored JSON-escaped on one line to survive CR / BOM / missing final newline.
"""
import glob, json, os, re, sys

SRC = sys.argv[1] if len(sys.argv) > 1 else "/repo/parser/tests/yaml-test-suite/src"
OUT = sys.argv[2] if len(sys.argv) > 2 else "/verif/corpus/suite.jsonl"

def visual_to_raw(s):
    for pat, rep in [("␣", " "), ("»", "\t"), ("—", ""), ("←", "\r"),
                     ("⇔", "\ufeff"), ("↵", ""), ("∎\n", "")]:
        s = s.replace(pat, rep)
    return s

recs = []
for path in sorted(glob.glob(os.path.join(SRC, "*.yaml"))):
    name = os.path.basename(path)[:-5]
    lines = open(path, encoding="utf-8").read().split("\n")
    i = 0
    k = 0
    while i < len(lines):
        m = re.match(r"^(- |  )yaml: \|(\d?)\s*$", lines[i])
        if not m:
            i += 1
            continue
        i += 1
        body = []
        while i < len(lines) and (lines[i].startswith("    ") or lines[i].strip() == ""):
            # a blank line belongs to the block only if more indented content follows
            body.append(lines[i][4:] if lines[i].startswith("    ") else "")
            i += 1
        while body and body[-1] == "":
            body.pop()
        text = "\n".join(body) + "\n"
        recs.append({"name": f"{name}#{k}", "text": visual_to_raw(text)})
        k += 1

with open(OUT, "w", encoding="utf-8") as f:
    for r in recs:
        f.write(json.dumps(r, ensure_ascii=True) + "\n")
print(len(recs), "documents ->", OUT)
