#!/bin/sh
# Confirm a sub-agent's seeded change in its scratch worktree, then run our checks against it.
# usage: tools/confirm_seeded.sh <name e.g. C10a> <crate dir: parser|saphyr> <demo file name> [props...]
# 1. suite (without the demo) green with the change  2. demo fails with the change
# 3. demo passes without the change                  4. ./check <prop> quick on /repo + patch
set -u
n="$1"; crate="$2"; demo="$3"; shift 3
props="${*:-$(echo "$n" | cut -c1-3)}"
wt=/tmp/seed/$n; out=/tmp/seed/$n.out
pkg=saphyr-parser; [ "$crate" = saphyr ] && pkg=saphyr
test_name=$(basename "$demo" .rs)
cd "$wt" || exit 2
export CARGO_NET_OFFLINE=true
mv "$crate/tests/$demo" "$out/.demo.tmp" 2>/dev/null || cp "$out/$demo" "$out/.demo.tmp"
if cargo test --workspace --no-fail-fast --offline >"$out/confirm_suite.log" 2>&1; then s1="suite-green"; else s1="suite-RED"; fi
cp "$out/.demo.tmp" "$crate/tests/$demo"
if cargo test -p $pkg --offline --test "$test_name" >"$out/confirm_demo_with.log" 2>&1; then s2="demo-PASSES-with-change(BAD)"; else s2="demo-fails-with-change"; fi
git stash -q
if cargo test -p $pkg --offline --test "$test_name" >"$out/confirm_demo_without.log" 2>&1; then s3="demo-passes-without"; else s3="demo-FAILS-without(BAD)"; fi
git stash pop -q
echo "$n: $s1 $s2 $s3"
cd /verif
for p in $props; do
    # the agent's worktree carries the change: build the simulator against it, /repo is untouched
    t0=$(date +%s)
    SIM_REPO="$wt" SIM_NO_EVIDENCE=1 ./check "$p" quick > "$out/check_$p.log" 2>&1; rc=$?
    t1=$(date +%s)
    echo "$n: ./check $p quick (SIM_REPO=$wt) -> rc=$rc ($((t1-t0))s) $(grep -m1 '^violation class' "$out/check_$p.log" | cut -c1-260)"
done
rm -f /verif/replays/*.json
