#!/usr/bin/env python3
"""Generate /verif/mutants/*.patch: deliberate property-breaking edits of /repo, used by
tools/sensitivity.sh to show that each check actually fails when its property is broken.
Each mutant is (name, property it should break, file, old text, new text). The script applies
the edit to /repo's working tree, records `git diff`, and restores the tree. It never commits.
"""
import os, subprocess, sys

REPO = "/repo"
OUT = "/verif/mutants"
M = []
def m(name, prop, path, old, new, note=""):
    M.append((name, prop, path, old, new, note))

SC = "parser/src/scanner.rs"
PA = "parser/src/parser.rs"
ST = "parser/src/input/str.rs"
BU = "parser/src/input/buffered.rs"
EN = "saphyr/src/encoding.rs"

# ---------------------------------------------------------------- C01
m("c01-empty-plain-scalar-ok", "C01", SC,
  "        if string.is_empty() {\n            // `fetch_plain_scalar` must",
  "        if string.is_empty() && self.flow_level == 0 {\n            // `fetch_plain_scalar` must",
  "the historic infinite loop: an empty plain scalar in flow context is a zero-progress token")
m("c01-docindicator-lookahead3", "C01", SC,
  "            self.input.lookahead(4);\n            if (self.leading_whitespace && self.input.next_is_document_indicator())",
  "            self.input.lookahead(3);\n            if (self.leading_whitespace && self.input.next_is_document_indicator())",
  "dropped look-ahead: assert!(buflen >= 4) / peek_nth(3) past the buffer, invisible with StrInput")
m("c01-skip-linebreak-no-lookahead", "C01", SC,
  "                '\\n' | '\\r' => {\n                    self.input.lookahead(2);\n                    self.skip_linebreak();\n                    if self.flow_level == 0 {\n                        self.allow_simple_key();\n                    }\n                }\n                '#' => {\n                    let comment_length",
  "                '\\n' | '\\r' => {\n                    self.skip_linebreak();\n                    if self.flow_level == 0 {\n                        self.allow_simple_key();\n                    }\n                }\n                '#' => {\n                    let comment_length",
  "dropped lookahead(2) before next_2_are: assert on ring buffers only")
m("c01-flow-level-unchecked", "C01", SC,
  "        self.flow_level = self\n            .flow_level\n            .checked_add(1)\n            .ok_or_else(|| ScanError::new_str(self.mark, \"recursion limit exceeded\"))?;",
  "        self.flow_level += 1;",
  "overflow panic under debug assertions at 256 nested flow collections (wraps in release)")

# ---------------------------------------------------------------- C10
m("c10-str-comment-bytes", "C10", ST,
  "                new_str = sub_str;\n                chars_consumed += 1;\n            }\n        }\n\n        self.buffer = new_str;",
  "                new_str = sub_str;\n                chars_consumed += c.len_utf8();\n            }\n        }\n\n        self.buffer = new_str;",
  "StrInput counts bytes for a non-ASCII comment: spans diverge only after such a comment")
m("c10-str-plain-last-colon", "C10", ST,
  "                // indicators can end a plain scalar, see 7.3.3. Plain Style\n                b':' => false,",
  "                // indicators can end a plain scalar, see 7.3.3. Plain Style\n                b':' => true,",
  "StrInput treats a ':' that is the very last character differently")
m("c10-str-docindicator-len3", "C10", ST,
  "    fn next_is_document_indicator(&self) -> bool {\n        if self.buffer.len() < 3 {\n            false\n        } else {\n            // Since all characters we look for are ascii, we can directly use the byte API of str.\n            let bytes = self.buffer.as_bytes();\n            (bytes.len() == 3 || is_blank_or_breakz(bytes[3] as char))",
  "    fn next_is_document_indicator(&self) -> bool {\n        if self.buffer.len() < 4 {\n            false\n        } else {\n            // Since all characters we look for are ascii, we can directly use the byte API of str.\n            let bytes = self.buffer.as_bytes();\n            (is_blank_or_breakz(bytes[3] as char))",
  "StrInput loses the document indicator at the very end of input")
m("c10-buffered-drop-break", "C10", BU,
  "            if is_breakz(c) {\n                self.buffer.push_back(c).unwrap();\n                None",
  "            if is_breakz(c) {\n                None",
  "BufferedInput drops the break read past a block scalar line (iterator path only)")
m("c10-indent-threshold", "C10", SC,
  "            if indent < self.input.bufmaxlen() - 2 {",
  "            if indent <= self.input.bufmaxlen() {",
  "block scalar indent fast path taken for indents that do not fit the buffer")
m("c10-plain-chunk-loop", "C10", SC,
  "                    for _ in 0..self.input.bufmaxlen() - 1 {",
  "                    for _ in 0..self.input.bufmaxlen() {",
  "plain scalar chunk loop reads one past the filled buffer when a scalar is a multiple of the capacity")

# ---------------------------------------------------------------- C17
m("c17-peek-sets-fuse", "C17", PA,
  "            match self.next_event_impl() {\n                Ok(token) => self.current = Some(token),",
  "            match self.next_event_impl() {\n                Ok(token) => {\n                    if token.0 == Event::StreamEnd {\n                        self.stream_end_emitted = true;\n                    }\n                    self.current = Some(token);\n                }",
  "peek of StreamEnd trips the iterator fuse: the following next returns None")
m("c17-streamend-not-fused", "C17", PA,
  "        if matches!(tok, Ok((Event::StreamEnd, _))) {\n            self.stream_end_emitted = true;\n        }",
  "        if matches!(tok, Ok((Event::StreamEnd, _))) && self.current.is_some() {\n            self.stream_end_emitted = true;\n        }",
  "fuse never set (current is always None after take): StreamEnd is returned again after the end")
m("c17-push-span-from-mark", "C17", PA,
  "            Event::Alias(..) | Event::Scalar(..) => {\n                recv.on_event(first_ev, span);\n                Ok(())",
  "            Event::Alias(..) | Event::Scalar(..) => {\n                recv.on_event(first_ev, Span::new(span.start, self.scanner.mark()));\n                Ok(())",
  "push interface takes the span end from the scanner position instead of the event")
m("c17-load-keeps-anchors", "C17", PA,
  "        self.anchors.clear();\n        if explicit_end {",
  "        if explicit_end {",
  "reverts the C17 fix: iteration keeps anchors across documents, load does not")
m("c17-load-single-eats-doc", "C17", PA,
  "            self.load_document(ev, span, recv)?;\n            if !multi {\n                break;\n            }",
  "            self.load_document(ev, span, recv)?;\n            if !multi && !self.scanner.stream_ended() {\n                break;\n            }",
  "load(multi=false) delivers two documents in one call when the scanner has already seen the end")

# ---------------------------------------------------------------- C18
m("c18-single-read", "C18", EN,
  "        let mut buffer = Vec::new();\n        self.source.read_to_end(&mut buffer)?;",
  "        let mut buffer = vec![0u8; 1 << 16];\n        let n = self.source.read(&mut buffer)?;\n        buffer.truncate(n);",
  "short-read bug: only the first chunk is decoded")
m("c18-swallow-io-error", "C18", EN,
  "        self.source.read_to_end(&mut buffer)?;",
  "        let _ = self.source.read_to_end(&mut buffer);",
  "an I/O error is swallowed: silent data loss")
m("c18-endianness-swapped", "C18", EN,
  "        if b[0] == 0 {\n            return encoding_rs::UTF_16BE;\n        } else if b[1] == 0 {\n            return encoding_rs::UTF_16LE;",
  "        if b[0] == 0 {\n            return encoding_rs::UTF_16LE;\n        } else if b[1] == 0 {\n            return encoding_rs::UTF_16BE;",
  "BOM-less UTF-16 endianness detection inverted")
m("c18-replace-pushes-nothing", "C18", EN,
  "                    YAMLDecodingTrap::Replace => {\n                        output.push('\\u{FFFD}');\n                    }",
  "                    YAMLDecodingTrap::Replace => {}",
  "Replace behaves like Ignore")
# (c18-strict-byte-idx, "Strict error context ignores bytes_after_malformed", was removed: it is an
#  equivalent mutant — encoding_rs reports 0 look-ahead bytes for UTF-8 and UTF-16, the only
#  encodings YamlDecoder can select.)
m("c18-break-arms-swapped", "C18", EN,
  "                            if error.is_empty() {",
  "                            if !error.is_empty() {",
  "callback Break(msg) loses its message, Break(\"\") returns an empty one")
m("c18-growth-step-reverted", "C18", EN,
  "                output.reserve((input.len() / 10).max(16));",
  "                output.reserve(input.len() / 10);",
  "reverts the C18 fix: spin on short expanding inputs")
m("c18-malformed-not-advanced", "C18", EN,
  "            (DecoderResult::Malformed(malformed_len, bytes_after_malformed), bytes_read) => {\n                total_bytes_read += bytes_read;",
  "            (DecoderResult::Malformed(malformed_len, bytes_after_malformed), bytes_read) => {\n                total_bytes_read += bytes_read.min(input.len() / 2);",
  "input not fully advanced past a malformation for some lengths: re-decodes / spins")

# ---------------------------------------------------------------- C11
m("c11-flow-limit-removed", "C11", SC,
  "    flow_level: u8,",
  "    flow_level: u32,",
  "the flow nesting limit (u8 overflow -> error at 256) silently disappears: deep '[' nesting now recurses in load")

def run(*a, **k):
    return subprocess.run(a, cwd=REPO, capture_output=True, text=True, **k)

def main():
    st = run("git", "status", "--porcelain").stdout.strip()
    if st:
        print("refusing: /repo working tree is not clean:\n" + st); sys.exit(2)
    os.makedirs(OUT, exist_ok=True)
    for f in os.listdir(OUT):
        if f.endswith(".patch"):
            os.remove(os.path.join(OUT, f))
    index = []
    for name, prop, path, old, new, note in M:
        p = os.path.join(REPO, path)
        s = open(p).read()
        if s.count(old) != 1:
            print(f"SKIP {name}: anchor text found {s.count(old)} times in {path}")
            continue
        open(p, "w").write(s.replace(old, new))
        d = run("git", "diff").stdout
        run("git", "checkout", "--", ".")
        open(os.path.join(OUT, name + ".patch"), "w").write(d)
        index.append(f"{name}\t{prop}\t{note}")
        print("ok  ", name)
    open(os.path.join(OUT, "INDEX.tsv"), "w").write("\n".join(index) + "\n")

main()
