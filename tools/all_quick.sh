#!/bin/sh
# Run all five quick checks on the unchanged tree without touching the committed evidence.
# To be run after ANY change to a shared table (scale families, alphabets, shapes): a family
# added for one property is picked up by the workloads of the others.
cd "${VERIF_DIR:-/verif}" || exit 2
bad=0
for p in C01 C10 C11 C17 C18; do
    t0=$(date +%s)
    SIM_NO_EVIDENCE=1 ./check $p quick > sim/target/all_quick.$p.out 2>&1; rc=$?
    t1=$(date +%s)
    echo "$p rc=$rc $((t1-t0))s $(grep -c '^VIOLATION' sim/target/all_quick.$p.out) violations, $(grep -c '^KNOWN-FINDING' sim/target/all_quick.$p.out) known findings"
    [ "$rc" = 0 ] || bad=1
done
rm -f replays/*.json
exit $bad
