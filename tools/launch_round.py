#!/usr/bin/env python3
"""Prepare one round of independent "seeded change" agents: a scratch git worktree of /repo per
agent under /tmp/seed/<id> and a prompt file /tmp/seed/<id>.prompt built from
tools/seed_prompt_adversarial.tmpl, the property record (and nothing else from /verif) and a focus
text.  usage: tools/launch_round.py <id>=<focus-key> ...   e.g.  C01x=parser C18w=decoder
The agents themselves are started by hand (one per prompt file)."""
import json, os, subprocess, sys

USED = ("Mechanisms ALREADY USED by earlier attempts (do not repeat them or close variants): dropped/hoisted look-ahead before skip_break/read_break/peek_nth; block scalar indent / blank-line width vs capacity; 4 KiB spill of a block scalar line; document indicator terminators; lead-byte casts and char-class slips in StrInput overrides (incl. NUL inside comments); SWAR comment skipping and lone CR; bulk plain-scalar window; BufferedInput::skip_while_blank window; %XX escapes in tags; split_at on tag / scalar text at a fixed byte offset; %YAML version overflow; numeric scalar forms; surrogate-pair escapes; simple-key 1024 limit; token look-ahead cap with pending flow keys; indentless sequence / flow single-pair state slips; fixed-capacity implicit_flow_mapping_states; anchors.clear() moved/skipped/replaced in every way incl. keep_tags and wrapping scope stamps; anchor id reset; tag scope moved; %TAG duplicate handling under keep_tags; peek cache fast path / span fix-up; load peeking; u16 depth counter and alias budget in load; loader anchor table as Vec; per-alias scan of the open-collection stack; Hash by len; quadratic chars().count(); recursion in unroll_indent / emitter / directives / decoder driver / loader shrink pass / ScanError context chain; loader moved to a thread with a smaller stack; emitter literal-block indent constant; flow-mapping depth limit; every growth-step and chunking/windowing variant in decode; decoder state kept between decode() calls; BOM double sniff and mid-stream sniff; first-read sniffing; EINTR in a hand-written read loop; endianness detection; Ignore stripping U+FFFD; whitespace-only early-out with is_ascii_whitespace; unkeyed/invertible hash for the anchor table (needs computed collisions: not interesting, do not repeat); size hint taken from the previously closed collection; thread-local/RefCell buffers borrowed across user callbacks; debug_assert on span order in load; NUL lost in raw_read_non_breakz_ch; padded format call with run-time width > 65535 in the emitter; truncating `char as u8` casts in char_traits (is_hex, is_flow); reserve(len - len_before) after the trap callback; shrink_to instead of clear for big anchor tables; recursive has_representation scan inside parse_representation_recursive; anything keyed on Iterator::size_hint of the char source; recursion per leading sign in scalar resolution; releasing the parser's state stack at a document boundary; line/column computed with rfind(line end)+1; tail call of fetch_value for `: : :`; frame-size growth of the recursive loader (a pure threshold shift: not interesting); position counters narrower than usize (needs 2^32 characters); fuse set on error in next_event_impl; stall counters in decode_loop; unclamped slice of the core-schema prefix; Vec+cursor token queue with a wrong len(); chars().position() vs len() in StrInput; accumulating trailing_breaks in folded flow scalars; byte-indexed lookup tables on non-ASCII text; raw_read paths of StrInput; node/element limits reset per document in load only; hard limits on the number of malformed sequences; emitter indentation indicators; tag table cloned per document under keep_tags; re-walking a subtree in deferred resolution after a failed tag; non-recursive forwarding in load keyed on the state-stack length; encoding_trap(Strict) not resetting a lenient handler; capacity arithmetic of the parser's state stack; O(depth) predicates evaluated per TAB/blank; merge-key (<<) handling in the loader; byte-level fast paths for anchor names in StrInput; per-document scanner state reset in load only; retrying read_to_end on WouldBlock; indent stack stored as u16 steps; backwards walk of the token queue per flow `?`; duplicate-key bookkeeping with Vec::contains; StrInput::buflen clamped to the remaining input; StrInput document-marker fast paths; conditions on when the peeked error is kept; constant-size indentation strings in the emitter.")
FOCUS = {
    "parser": "anything in parser/src — your choice. ",
    "loader": "anything in saphyr/src reachable through the four document loaders (incl. deferred resolution) — your choice. ",
    "inputs": "any divergence between the string input and other inputs — your choice. ",
    "interfaces": "any disagreement between plain iteration, peek/next histories, load(multi=true) and repeated load(multi=false) on a parser used through ONE of these interfaces at a time, on documents up to a few MB — your choice. ",
    "decoder": "any wrong result, panic, abort or hang of YamlDecoder::decode on inputs up to a few MiB — your choice. ",
    "nesting": "any way in which nesting depth makes parsing, loading, emitting or releasing crash or panic that the listed shapes/depths/stacks/APIs/options would not exercise — your choice. ",
}
props = {json.loads(l)["id"]: json.loads(l) for l in open("/verif/properties.jsonl")}
tmpl = open(os.path.join(os.path.dirname(os.path.abspath(__file__)), "seed_prompt_adversarial.tmpl")).read()
os.makedirs("/tmp/seed", exist_ok=True)
for arg in sys.argv[1:]:
    k, f = arg.split("=")
    wt = f"/tmp/seed/{k}"
    if not os.path.isdir(wt):
        subprocess.check_call(["git", "-C", "/repo", "worktree", "add", "-q", "--detach", wt, "HEAD"])
    os.makedirs(wt + ".out", exist_ok=True)
    subprocess.check_call(["cp", "/repo/Cargo.lock", wt + "/Cargo.lock"])
    p = (tmpl.replace("@WT@", wt).replace("@OUT@", wt + ".out")
         .replace("@PROPERTY@", json.dumps(props[k[:3]], indent=1)).replace("@FOCUS@", FOCUS[f] + USED))
    open(wt + ".prompt", "w").write(p)
    print("prepared", k, f)
