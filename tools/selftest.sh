#!/bin/sh
# Determinism self-test: the per-run record (fingerprint of every seam call, tick count, event
# count, outcome, recorded tape, verdict) must be byte-identical across separate processes and
# across worker counts 1, 5 and 16. Usage: tools/selftest.sh determinism [runs-per-property]
set -u
VERIF_DIR="${VERIF_DIR:-/verif}"
BIN="$VERIF_DIR/sim/target/strict/simcheck"
N="${2:-20000}"
OUT="$VERIF_DIR/sim/target/selftest"
mkdir -p "$OUT"
rc=0
for p in C01 C10 C17 C18; do
    # start past the exhaustive prefix as well as inside it
    for start in 0 3000000; do
        VERIF_JOBS=1  "$BIN" fingerprints $p quick $start "$N" > "$OUT/$p.$start.j1"  || rc=2
        VERIF_JOBS=5  "$BIN" fingerprints $p quick $start "$N" > "$OUT/$p.$start.j5"  || rc=2
        VERIF_JOBS=16 "$BIN" fingerprints $p quick $start "$N" > "$OUT/$p.$start.j16" || rc=2
        VERIF_JOBS=16 "$BIN" fingerprints $p quick $start "$N" > "$OUT/$p.$start.j16b" || rc=2
        ok=1
        for f in j5 j16 j16b; do
            if ! cmp -s "$OUT/$p.$start.j1" "$OUT/$p.$start.$f"; then
                echo "DETERMINISM FAILURE: $p start=$start: 1 worker vs $f differ:"
                diff "$OUT/$p.$start.j1" "$OUT/$p.$start.$f" | head -5
                rc=1; ok=0
            fi
        done
        [ "$ok" = 1 ] && echo "$p start=$start: $(wc -l < "$OUT/$p.$start.j1") runs x 4 executions (1, 5, 16, 16 workers; separate processes): identical"
    done
done
rm -rf "$OUT"
exit $rc
